#!/usr/bin/env python3
"""Writes the table of seeded changes (DESIGN.md 13.6) from /verif/seeded/*/meta.json and result.txt, and
adds confirmed / caught_by to each meta.json."""
import json, glob, os, re
rows = []
for d in sorted(glob.glob('/verif/seeded/*-*')):
    name = os.path.basename(d)
    m = json.load(open(d + '/meta.json'))
    res = open(d + '/result.txt').read().strip().split('\n') if os.path.exists(d + '/result.txt') else []
    caught = [re.search(r'check=(\S+)', l).group(1) for l in res if ' CAUGHT' in l]
    missed = [re.search(r'check=(\S+)', l).group(1) for l in res if ' missed' in l]
    m['confirmed'] = 'suite passes with the change; demonstration fails with it and passes without it (tools/seedconfirm in the worktree of its author; tools/seedreconfirm against the repaired tree)'
    m['caught_by'] = caught
    m['ran'] = ['./check %s quick against a scratch worktree of /repo HEAD with the patch applied (tools/seedmatrixpar / tools/seedpar)' % c for c in caught + missed]
    json.dump(m, open(d + '/meta.json', 'w'), indent=1)
    verdict = ', '.join(caught) or '**missed**'
    if m.get('status') == 'neutralised':
        verdict = 'neutralised by a later fix (not counted)'
    if m.get('status') == 'disputed':
        verdict = 'not counted: the statement does not decide (see meta.json)'
    rows.append((name, m.get('summary', '')[:150].replace('\n', ' ').replace('|', '/'), m.get('needs', '')[:150].replace('\n', ' ').replace('|', '/'), verdict))
print('| seed | change | needs | caught by |\n|---|---|---|---|')
for r in rows:
    print('| %s | %s | %s | %s |' % r)
