#!/usr/bin/env python3
"""Writes the table of seeded changes (DESIGN.md 13.6) from /verif/seeded/*/meta.json and result.txt, and
adds confirmed / caught_by to each meta.json."""
import json, glob, os, re
rows = []
for d in sorted(glob.glob('/verif/seeded/*-*')):
    name = os.path.basename(d)
    m = json.load(open(d + '/meta.json'))
    res = open(d + '/result.txt').read().strip().split('\n') if os.path.exists(d + '/result.txt') else []
    caught = [re.search(r'check=(\S+)', l).group(1) for l in res if ' CAUGHT' in l]
    missed = [re.search(r'check=(\S+)', l).group(1) for l in res if ' missed' in l]
    m['confirmed'] = 'suite passes with the change; demonstration fails with it and passes without it (tools/seedconfirm in the worktree of its author; tools/seedreconfirm against the repaired tree)'
    m['caught_by'] = caught
    m['ran'] = ['./check %s quick against a scratch worktree of /repo HEAD with the patch applied (tools/seedmatrixpar / tools/seedpar)' % c for c in caught + missed]
    json.dump(m, open(d + '/meta.json', 'w'), indent=1)
    verdict = ', '.join(caught) or '**missed**'
    if m.get('kind') == 'benign':
        silent = [re.search(r'check=(\S+)', l).group(1) for l in res if ' SILENT' in l]
        alarm = [l for l in res if ' ALARM' in l or ' CAUGHT' in l]
        m['confirmed'] = 'suite passes with the change; the property holds with it (the author\'s demonstration passes with and without the change)'
        m['ran'] = ['./check %s quick against a scratch worktree of /repo HEAD with the patch applied (tools/benignpar)' % c for c in silent]
        json.dump(m, open(d + '/meta.json', 'w'), indent=1)
        verdict = '**FALSE ALARM**' if alarm else ('benign: ' + ', '.join(silent) + ' silent (as it must be)' if silent else 'benign: not run')
    if m.get('status') == 'neutralised':
        verdict = 'neutralised by a later fix (not counted)'
    if m.get('status') == 'disputed':
        verdict = 'not counted: the statement does not decide (see meta.json)'
    rows.append((name, m.get('summary', '')[:150].replace('\n', ' ').replace('|', '/'), m.get('needs', '')[:150].replace('\n', ' ').replace('|', '/'), verdict))
print('| seed | change | needs | caught by |\n|---|---|---|---|')
for r in rows:
    print('| %s | %s | %s | %s |' % r)
