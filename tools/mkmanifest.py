#!/usr/bin/env python3
"""Regenerates /verif/MANIFEST.json from the table below (kept valid at all times)."""
import json, subprocess, sys
ROOT = "/verif"
props = [json.loads(l) for l in open(ROOT + "/properties.jsonl")]
# id -> (family spec, level category, level text, level note, technique, design_ref)
claimed = json.load(open(ROOT + "/tools/claimed.json"))
hooks = json.load(open(ROOT + "/tools/hooks.json"))
checks, na = [], []
for p in props:
    i = p["id"]
    c = claimed.get(i)
    if not c or not c.get("claimed", True):
        na.append({"property_id": i, "reason": (c or {}).get("reason", "check not built yet (work in progress; see DESIGN.md section 6)")})
        continue
    checks.append({
        "property_id": i,
        "quick_cmd": "./check %s quick" % i,
        "thorough_cmd": "./check %s thorough" % i,
        "evidence_file": "/verif/evidence/%s.json" % i,
        "replay_cmd_template": "./replay {path}",
        "engine": "tlc+replay",
        "level_claimed": {"category": c["category"], "text": c["text"], "design_ref": c.get("design_ref", "DESIGN.md section 6, " + i)},
        "level_note": c["note"],
        "technique": c["technique"],
    })
m = {
    "version": 1,
    "setup_cmd": "./setup",
    "hooks": hooks,
    "engines": [{"name": "tlc+replay", "path": "/verif/harness", "serves_properties": [c["property_id"] for c in checks],
                 "kind_free_text": "TLA+ specifications in /verif/specs checked by TLC; behaviours exported by TLC are replayed into the real library and recorded executions of the library are validated against trace specifications (Go driver in /verif/harness, rebuilt against /repo with -tags verif by ./check)"}],
    "checks": checks,
    "notes": "Every check: exit 0 = held on everything explored (KNOWN-FINDING lines possible), 1 = VIOLATION line(s), 2 = trouble of the machinery itself (TLC error, build failure, timeout, unreproduced candidate), never reported as a violation. VERIF_SEED seeds direction B and sampling.",
    "not_applicable": na,
}
json.dump(m, open(ROOT + "/MANIFEST.json", "w"), indent=1)
print("claimed", len(checks), "not claimed", len(na))
