package main

import (
	"encoding/json"
	"fmt"
	"go/ast"
	"go/parser"
	"go/token"
	"os"
	"reflect"
	"sort"
	"strings"
)

type field struct{ Kw, Type, Mult string; Required bool; RequiredFor string }

func main() {
	fset := token.NewFileSet()
	f, err := parser.ParseFile(fset, "/repo/pkg/yang/yang.go", nil, 0)
	if err != nil { panic(err) }
	out := map[string][]field{}
	for _, d := range f.Decls {
		gd, ok := d.(*ast.GenDecl); if !ok { continue }
		for _, sp := range gd.Specs {
			ts, ok := sp.(*ast.TypeSpec); if !ok { continue }
			st, ok := ts.Type.(*ast.StructType); if !ok { continue }
			for _, fl := range st.Fields.List {
				if fl.Tag == nil { continue }
				tag := reflect.StructTag(strings.Trim(fl.Tag.Value, "`")).Get("yang")
				if tag == "" { continue }
				parts := strings.Split(tag, ",")
				fd := field{Kw: parts[0]}
				switch t := fl.Type.(type) {
				case *ast.StarExpr: fd.Mult = "one"; fd.Type = fmt.Sprint(t.X)
				case *ast.ArrayType: fd.Mult = "many"; if se, ok := t.Elt.(*ast.StarExpr); ok { fd.Type = fmt.Sprint(se.X) }
				default: continue
				}
				if fd.Kw == "Statement" || fd.Kw == "Ext" || fd.Kw == "Parent" || fd.Kw == "Name" { continue }
				for _, p := range parts[1:] { if p == "required" { fd.Required = true }; if strings.HasPrefix(p, "required=") { fd.RequiredFor = p[9:] } }
				out[ts.Name.Name] = append(out[ts.Name.Name], fd)
			}
		}
	}
	b, _ := json.MarshalIndent(out, "", " ")
	os.WriteFile("/verif/specs/grammar.json", b, 0644)
	// TLA+ constant module
	var types []string
	for t := range out { types = append(types, t) }
	sort.Strings(types)
	set := func(xs []string) string { sort.Strings(xs); q := []string{}; for _, x := range xs { q = append(q, fmt.Sprintf("%q", x)) }; return "{" + strings.Join(q, ", ") + "}" }
	var w strings.Builder
	w.WriteString("---- MODULE Grammar ----\n\\* generated from the yang struct tags of the pinned tree; frozen\nGTypes == " + set(append([]string{}, types...)) + "\n")
	w.WriteString("Gram == [t \\in GTypes |->\n  CASE ")
	for i, t := range types {
		var one, many, req []string
		reqfor := map[string][]string{}
		for _, f := range out[t] {
			if f.Mult == "one" { one = append(one, f.Kw) } else { many = append(many, f.Kw) }
			if f.Required { req = append(req, f.Kw) }
			if f.RequiredFor != "" { reqfor[f.RequiredFor] = append(reqfor[f.RequiredFor], f.Kw) }
		}
		if i > 0 { w.WriteString("    [] ") }
		fmt.Fprintf(&w, "t = %q -> [one |-> %s, many |-> %s, req |-> %s, reqModule |-> %s, reqSubmodule |-> %s]\n", t, set(one), set(many), set(req), set(reqfor["module"]), set(reqfor["submodule"]))
	}
	w.WriteString("  ]\n====\n")
	os.WriteFile("/verif/specs/Grammar.tla", []byte(w.String()), 0644)
}
