module gram
go 1.22
