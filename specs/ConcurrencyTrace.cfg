INIT TInit
NEXT TNext
INVARIANT TMutex
POSTCONDITION Consumed
CHECK_DEADLOCK FALSE
