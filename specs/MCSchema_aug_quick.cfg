CONSTANTS
  Programs <- SAugQuickSet
  CanonOrder <- MCOrder
INIT Init
NEXT Next
VIEW View
INVARIANTS Confluence ExactlyOnce NeverTwice ProperTrees Export
PROPERTIES AppliedStays
CHECK_DEADLOCK FALSE
