---- MODULE MCSchema ----
(* Program spaces for the Schema family (DESIGN.md Appendix C).  Every space is *)
(* an operator with a dummy parameter so that TLC does not evaluate the ones a  *)
(* configuration does not use.                                                  *)
EXTENDS Schema
Leaf(n) == Stmt("leaf", n, << Stmt("type", "string", <<>>) >>)
LeafD(n, d) == Stmt("leaf", n, << Stmt("type", "string", <<>>), Stmt("default", d, <<>>) >>)
Q(p, n) == [p |-> p, n |-> n]
Cfg(v) == Stmt("config", v, <<>>)
Uses(p, n) == Stmt("uses", Q(p, n), <<>>)
NoImp == [x \in {} |-> ""]
Mod(name, imports, includes, body) ==
  [name |-> name, kind |-> "module", pfx |-> name, ns |-> "urn:" \o name, belongs |-> "",
   imports |-> imports, includes |-> includes, body |-> body]
Sub(name, owner, imports, includes, body) ==
  [name |-> name, kind |-> "submodule", pfx |-> owner, ns |-> "", belongs |-> owner,
   imports |-> imports, includes |-> includes, body |-> body]
Prog(ms) == [mods |-> ms, ignoreNS |-> FALSE]

\* ---- S_aug: a base module and augmenting modules -------------------------------------
BaseBody(cfgC) ==
  << Stmt("grouping", "g", << Stmt("container", "gc", << Leaf("gl") >>) >>),
     Stmt("container", "c", (IF cfgC = "unset" THEN <<>> ELSE << Cfg(cfgC) >>) \o
          << Leaf("l"),
             Stmt("container", "d", <<>>),
             Stmt("choice", "ch", << Stmt("case", "k", << Leaf("kl") >>), Leaf("sh") >>),
             Uses("", "g"),
             Stmt("leaf-list", "ll", << Stmt("type", "string", <<>>) >>) >>),
     Stmt("container", "e", << Uses("", "g") >>),
     Stmt("list", "li", << Stmt("key", "k", <<>>), Leaf("k") >>),
     Stmt("rpc", "r", << Stmt("input", "input", << Leaf("i"), Stmt("choice", "rc", << Leaf("rs") >>) >>),
                         Stmt("output", "output", << Leaf("o") >>) >>),
     Stmt("rpc", "r2", <<>>),
     Stmt("notification", "n", << Leaf("nl") >>) >>
BaseA(cfgC) == Mod("a", NoImp, <<>>, BaseBody(cfgC))

Targets == { << Q("a","c") >>,
             << Q("a","c"), Q("a","d") >>,
             << Q("a","c"), Q("a","ch") >>,
             << Q("a","c"), Q("a","ch"), Q("a","k") >>,
             << Q("a","c"), Q("a","gc") >>,
             << Q("a","c"), Q("b","x") >>,
             << Q("a","c"), Q("b","x"), Q("b","xc") >>,
             << Q("a","c"), Q("a","nosuch") >>,
             << Q("a","c"), Q("a","l") >>,
             << Q("a","e"), Q("a","gc") >>,
             << Q("a","li") >>,
             << Q("a","r"), Q("a","input") >>,
             << Q("a","r"), Q("a","input"), Q("a","rc") >>,
             << Q("a","r"), Q("a","output") >>,
             << Q("a","r2"), Q("a","input") >>,
             << Q("a","n") >> }
ChainTargets == { << Q("a","c") >>,
                  << Q("a","c"), Q("b","x") >>,
                  << Q("a","c"), Q("b","x"), Q("b","xc") >>,
                  << Q("a","c"), Q("a","ch") >>,
                  << Q("a","r"), Q("a","input"), Q("a","rc") >>,
                  << Q("a","c"), Q("a","l") >>,
                  << Q("a","c"), Q("a","nosuch") >> }
XPayload == << Stmt("container", "x", << Cfg("false"), Leaf("xl"), Stmt("container", "xc", <<>>) >>) >>
Payloads(self) == { << Leaf("y") >>,
                    XPayload,
                    << Uses(IF self = "b" THEN "" ELSE "b", "bg") >>,
                    << Leaf("z"), Stmt("container", "w", << Leaf("wl") >>) >>,
                    << Leaf("l") >> }
ChainPayloads == { << Leaf("y") >>, XPayload, << Leaf("l") >> }
Aug(t, pl) == Stmt("augment", t, pl)
ImpA == [x \in {"a"} |-> "a"]
ImpAB == [x \in {"a", "b"} |-> x]
ModB(augs) == Mod("b", ImpA, <<>>, << Stmt("grouping", "bg", << Leaf("bgl") >>) >> \o augs)
ModC(augs) == Mod("c", ImpAB, <<>>, augs)

SAugQuick(dummy) ==
  { Prog(("a" :> BaseA(cc)) @@ ("b" :> ModB(<<Aug(t1, p1)>>)) @@ ("c" :> ModC(<<Aug(t2, p2)>>))) :
      cc \in {"unset", "false"}, t1 \in Targets, p1 \in Payloads("b"), t2 \in ChainTargets, p2 \in ChainPayloads }
MCOrder == <<"a", "b", "c", "as", "bs">>
MCOrder2 == <<"a", "as", "b", "bs", "c", "d", "ds", "u", "us", "w", "v">>
SAugQuickSet == SAugQuick(0)

\* thorough: two augments in b (written in either order), one in c, one in b's submodule bs
ModBS(augs) == Mod("b", ImpA, <<"bs">>, << Stmt("grouping", "bg", << Leaf("bgl") >>) >> \o augs)
SubBS(augs) == Sub("bs", "b", ImpA, <<>>, augs)
SAugSub(dummy) ==
  { Prog(("a" :> BaseA("unset")) @@ ("b" :> ModBS(<<Aug(t1, p1)>>)) @@ ("bs" :> SubBS(<<Aug(t2, p2)>>))) :
      t1 \in Targets, p1 \in Payloads("b"), t2 \in ChainTargets, p2 \in ChainPayloads }
SAugSubSet == SAugSub(0)
SAugTwo(dummy) ==
  { Prog(("a" :> BaseA("unset")) @@ ("b" :> ModB(<<Aug(t1, p1), Aug(t2, p2)>>)) @@ ("c" :> ModC(<<Aug(t3, << Leaf("y") >>)>>))) :
      t1 \in ChainTargets, p1 \in ChainPayloads, t2 \in ChainTargets, p2 \in ChainPayloads, t3 \in ChainTargets }
SAugTwoSet == SAugTwo(0)

\* ---- S_cfg: config at three depths, the subtrees placed by different mechanisms (C12) ----
CfgK(v) == IF v = "unset" THEN <<>> ELSE << Cfg(v) >>
T3(c3) == Stmt("leaf", "t3", << Stmt("type", "string", <<>>) >> \o CfgK(c3))
\* t2 and below, as statements written by module `who`
T2Body(c2, c3, m3) ==
  CfgK(c2) \o (CASE m3 = "plain" -> << T3(c3) >>
                  [] m3 = "uses"  -> << Uses("", "g3") >>
                  [] m3 = "choice" -> << Stmt("choice", "ch", << Stmt("case", "ca", << T3(c3) >>) >>) >>
                  [] m3 = "augment" -> <<>>)
T2(c2, c3, m3) == Stmt("container", "t2", T2Body(c2, c3, m3))
G3(c3) == Stmt("grouping", "g3", << T3(c3) >>)
G2(c2, c3, m3) == Stmt("grouping", "g2", << T2(c2, c3, m3) >>)
\* the wrapper holding t1: data tree, rpc input, rpc output, notification
Wrap(w, inner) ==
  CASE w = "data" -> inner
    [] w = "input" -> << Stmt("rpc", "rp", << Stmt("input", "input", inner) >>) >>
    [] w = "output" -> << Stmt("rpc", "rp", << Stmt("output", "output", inner) >>) >>
    [] w = "notif" -> << Stmt("notification", "no", inner) >>
WrapPath(w) == CASE w = "data" -> <<>> [] w = "input" -> << Q("a","rp"), Q("a","input") >>
                 [] w = "output" -> << Q("a","rp"), Q("a","output") >> [] w = "notif" -> << Q("a","no") >>
CfgProg(w, c1, c2, c3, m2, m3, insub) ==
  LET t1 == Stmt("container", "t1", CfgK(c1) \o
               (CASE m2 = "plain" -> << T2(c2, c3, m3) >>
                  [] m2 = "uses" -> << Uses("", "g2") >>
                  [] m2 = "choice" -> << Stmt("choice", "cc", << T2(c2, c3, m3) >>) >>      \* shorthand member
                  [] m2 = "augment" -> <<>>))
      defs == << G3(c3), G2(c2, c3, m3) >>
      body == defs \o Wrap(w, << t1 >>)
      p1 == WrapPath(w) \o << Q("a","t1") >>
      p2 == p1 \o (IF m2 = "choice" THEN << Q("a","cc"), Q("a","t2") >> ELSE << Q("a","t2") >>)
      augs == (IF m2 = "augment" THEN << Aug(p1, << T2(c2, c3, IF m3 = "uses" THEN "plain" ELSE m3) >>) >> ELSE <<>>)
              \o (IF m3 = "augment" THEN << Aug(p2, << T3(c3) >>) >> ELSE <<>>)
      a == IF insub THEN Mod("a", NoImp, <<"as">>, <<>>) ELSE Mod("a", NoImp, <<>>, body)
      b == Mod("b", ImpA, <<>>, augs)
  IN Prog(IF insub THEN ("a" :> a) @@ ("as" :> Sub("as", "a", NoImp, <<>>, body)) @@ ("b" :> b)
                   ELSE ("a" :> a) @@ ("b" :> b))
Tri == {"unset", "true", "false"}
SCfg(dummy) ==
  { CfgProg("data", c1, c2, c3, m2, m3, insub) :
       c1 \in Tri, c2 \in Tri, c3 \in Tri, m2 \in {"plain", "uses", "choice", "augment"},
       m3 \in {"plain", "uses", "choice", "augment"}, insub \in BOOLEAN }
  \cup { CfgProg(w, "unset", "unset", "unset", m2, m3, insub) :
       w \in {"input", "output", "notif"}, m2 \in {"plain", "uses", "choice", "augment"},
       m3 \in {"plain", "uses", "choice", "augment"}, insub \in BOOLEAN }
SCfgSet == SCfg(0)

\* ---- S_uses: groupings defined and used in several places (C06) -------------------------
\* definer module d (with submodule ds), user module u (with submodule us), a third module w
Shape(k) ==       \* bodies of the grouping g1
  CASE k = 1 -> << Stmt("container", "k1", << LeafD("x", "dv"), Uses("", "g2") >>) >>
    [] k = 2 -> << Stmt("list", "k1", << Stmt("key", "x", <<>>), Leaf("x"), Stmt("min-elements", 1, <<>>), Uses("", "g2") >>),
                   Stmt("leaf-list", "ll", << Stmt("type", "string", <<>>), Stmt("default", "a", <<>>), Stmt("default", "b", <<>>) >>) >>
    [] k = 3 -> << Stmt("container", "k1", << Cfg("false"), Stmt("choice", "ch", << Stmt("case", "ca", << Leaf("x") >>), Leaf("sh") >>) >>),
                   Uses("", "g2") >>
    [] k = 4 -> << Stmt("container", "k1", << Leaf("x"), Stmt("grouping", "g2", << Leaf("inner2") >>), Uses("", "g2") >>) >>
G1(k) == Stmt("grouping", "g1", Shape(k))
\* where g1 (and the g2 next to it) is defined: d's top level, d's submodule, u's top level, u's submodule
DefD == << Stmt("grouping", "g2", << Leaf("d2") >>) >>
UseSite(site, ref) ==     \* a statement of u that uses ref at the given kind of place
  CASE site = "top" -> Stmt("container", "s_" \o site, << ref >>)      \* (kept inside a container so that two sites never collide)
    [] site = "list" -> Stmt("list", "s_list", << Stmt("key", "kk", <<>>), Leaf("kk"), ref >>)
    [] site = "input" -> Stmt("rpc", "s_rpc", << Stmt("input", "input", << ref >>) >>)
    [] site = "notif" -> Stmt("notification", "s_notif", << ref >>)
    [] site = "nested" -> Stmt("container", "s_nested", << Stmt("grouping", "gw", << ref >>), Stmt("uses", Q("", "gw"), <<>>) >>)
    [] site = "case" -> Stmt("choice", "s_choice", << Stmt("case", "s_case", << ref >>) >>)
SitePath(site) ==
  CASE site = "top" -> << Q("u","s_top") >> [] site = "list" -> << Q("u","s_list") >>
    [] site = "input" -> << Q("u","s_rpc"), Q("u","input") >> [] site = "notif" -> << Q("u","s_notif") >>
    [] site = "nested" -> << Q("u","s_nested") >> [] site = "case" -> << Q("u","s_choice"), Q("u","s_case") >>
Sites == {"top", "list", "input", "notif", "nested", "case"}
ImpD == [x \in {"d"} |-> "d"]
ImpU == [x \in {"u"} |-> "u"]
UsesProg(k, def, s1, s2, mut) ==
  LET ref == IF def \in {"d", "ds"} THEN Uses("d", "g1") ELSE Uses("", "g1")
      \* u has a g2 of its own: names inside g1 must not bind to it when g1 lives in d
      uOwn == << Stmt("grouping", "g2", << Leaf("u2") >>) >>
      uBody == (IF def = "u" THEN << G1(k) >> ELSE <<>>) \o uOwn \o << UseSite(s1, ref) >> \o (IF s2 # s1 THEN << UseSite(s2, ref) >> ELSE <<>>)
      dBody == DefD \o (IF def = "d" THEN << G1(k) >> ELSE <<>>)
      target == SitePath(s1) \o << Q("u", "k1") >>
      wBody == CASE mut = "none" -> <<>>
                 [] mut = "augment" -> << Aug(target, << Leaf("grafted") >>) >>
                 [] mut = "notsupp" -> << Stmt("deviation", target, << Stmt("deviate", "not-supported", <<>>) >>) >>
                 [] mut = "config" -> << Stmt("deviation", target, << Stmt("deviate", "add", << Cfg("false") >>) >>) >>
      u == Mod("u", ImpD, IF def = "us" THEN <<"us">> ELSE <<>>, uBody)
      d == Mod("d", NoImp, IF def = "ds" THEN <<"ds">> ELSE <<>>, dBody)
      w == Mod("w", ImpU, <<>>, wBody)
  IN Prog(("u" :> u) @@ ("d" :> d) @@ ("w" :> w)
          @@ (IF def = "us" THEN ("us" :> Sub("us", "u", ImpD, <<>>, << G1(k) >>)) ELSE << >>)
          @@ (IF def = "ds" THEN ("ds" :> Sub("ds", "d", NoImp, <<>>, << G1(k), Stmt("grouping", "g2", << Leaf("ds2") >>) >>)) ELSE << >>))
SUses(dummy) ==
  { UsesProg(k, def, s1, s2, mut) : k \in 1..4, def \in {"d", "ds", "u"}, s1 \in Sites, s2 \in Sites,
                                    mut \in {"none", "augment", "notsupp", "config"} }
SUsesSet == SUses(0)
SUsesQuick(dummy) ==
  { UsesProg(k, def, s1, s2, mut) : k \in 1..4, def \in {"d", "ds", "u"}, s1 \in {"top", "input", "nested", "case"}, s2 \in {"top", "list", "notif"},
                                    mut \in {"none", "augment", "notsupp", "config"} }
SUsesQuickSet == SUsesQuick(0)
====
