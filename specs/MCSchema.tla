---- MODULE MCSchema ----
(* Program spaces for the Schema family (DESIGN.md Appendix C).  Every space is *)
(* an operator with a dummy parameter so that TLC does not evaluate the ones a  *)
(* configuration does not use.                                                  *)
EXTENDS Schema
Leaf(n) == Stmt("leaf", n, << Stmt("type", "string", <<>>) >>)
LeafD(n, d) == Stmt("leaf", n, << Stmt("type", "string", <<>>), Stmt("default", d, <<>>) >>)
Q(p, n) == [p |-> p, n |-> n]
Cfg(v) == Stmt("config", v, <<>>)
Uses(p, n) == Stmt("uses", Q(p, n), <<>>)
NoImp == [x \in {} |-> ""]
Mod(name, imports, includes, body) ==
  [name |-> name, kind |-> "module", pfx |-> name, ns |-> "urn:" \o name, belongs |-> "",
   imports |-> imports, includes |-> includes, body |-> body]
Sub(name, owner, imports, includes, body) ==
  [name |-> name, kind |-> "submodule", pfx |-> owner, ns |-> "", belongs |-> owner,
   imports |-> imports, includes |-> includes, body |-> body]
Prog(ms) == [mods |-> ms, ignoreNS |-> FALSE]

\* ---- S_aug: a base module and augmenting modules -------------------------------------
BaseBody(cfgC) ==
  << Stmt("grouping", "g", << Stmt("container", "gc", << Leaf("gl") >>), Stmt("container", "ge", <<>>) >>),
     Stmt("container", "c", (IF cfgC = "unset" THEN <<>> ELSE << Cfg(cfgC) >>) \o
          << Leaf("l"),
             Stmt("container", "d", <<>>),
             Stmt("choice", "ch", << Stmt("case", "k", << Leaf("kl") >>), Leaf("sh"), Stmt("container", "sc", <<>>) >>),
             Uses("", "g"),
             Stmt("action", "act", <<>>),
             Stmt("leaf-list", "ll", << Stmt("type", "string", <<>>) >>) >>),
     Stmt("container", "e", << Uses("", "g") >>),
     \* ordinary data nodes that happen to be CALLED input and output (not the input / output of an operation)
     Stmt("container", "input", << Leaf("level"), Stmt("container", "output", << Leaf("gain") >>) >>),
     Stmt("list", "li", << Stmt("key", "k", <<>>), Leaf("k") >>),
     Stmt("rpc", "r", << Stmt("input", "input", << Leaf("i"), Stmt("choice", "rc", << Leaf("rs") >>) >>),
                         Stmt("output", "output", << Leaf("o") >>) >>),
     Stmt("rpc", "r2", <<>>),
     Stmt("rpc", "r3", << Stmt("output", "output", << Leaf("o3"), Stmt("choice", "oc", << Leaf("os") >>) >>) >>),
     Stmt("anyxml", "ax", <<>>),
     Stmt("notification", "n", << Leaf("nl") >>) >>
BaseA(cfgC) == Mod("a", NoImp, <<>>, BaseBody(cfgC))

Targets == { << Q("a","c") >>,
             << Q("a","c"), Q("a","d") >>,
             << Q("a","c"), Q("a","ch") >>,
             << Q("a","c"), Q("a","ch"), Q("a","k") >>,
             << Q("a","c"), Q("a","gc") >>,
             << Q("a","c"), Q("a","ge") >>,          \* an empty container copied from a grouping that is used twice
             << Q("a","c"), Q("b","x") >>,
             << Q("a","c"), Q("b","x"), Q("b","xc") >>,
             << Q("a","c"), Q("a","nosuch") >>,
             << Q("a","c"), Q("a","l") >>,
             << Q("a","e"), Q("a","gc") >>,
             << Q("a","li") >>,
             << Q("a","r"), Q("a","input") >>,
             << Q("a","r"), Q("a","input"), Q("a","rc") >>,
             << Q("a","r"), Q("a","output") >>,
             << Q("a","r2"), Q("a","input") >>,
             << Q("a","n") >> }
ChainTargets == { << Q("a","c") >>,
                  << Q("a","c"), Q("b","x") >>,
                  << Q("a","c"), Q("b","x"), Q("b","xc") >>,
                  << Q("a","c"), Q("a","ch") >>,
                  << Q("a","r"), Q("a","input"), Q("a","rc") >>,
                  << Q("a","c"), Q("a","l") >>,
                  << Q("a","c"), Q("a","nosuch") >> }
XPayload == << Stmt("container", "x", << Cfg("false"), Leaf("xl"), Stmt("container", "xc", <<>>) >>) >>
Payloads(self) == { << Leaf("y") >>,
                    XPayload,
                    << Uses(IF self = "b" THEN "" ELSE "b", "bg") >>,
                    << Leaf("z"), Stmt("container", "w", << Leaf("wl") >>) >>,
                    << Leaf("l") >> }
\* (the last one: the augment's body is nothing but a uses of a grouping that a THIRD module defines, when c writes it)
ChainPayloads == { << Leaf("y") >>, XPayload, << Leaf("l") >>, << Uses("b", "bg") >> }
Aug(t, pl) == Stmt("augment", t, pl)
ImpA == [x \in {"a"} |-> "a"]
ImpAB == [x \in {"a", "b"} |-> x]
ModB(augs) == Mod("b", ImpA, <<>>, << Stmt("grouping", "bg", << Leaf("bgl") >>), Stmt("container", "bdata", << Leaf("bl") >>) >> \o augs)
ModC(augs) == Mod("c", ImpAB, <<>>, << Stmt("container", "cdata", << Leaf("cl") >>) >> \o augs)

\* targets that are not augmentable (anyxml, an rpc itself), the unwritten input / output of an action, a shorthand
\* container reached directly and through its implicit case (resolves only once the implicit cases exist), payloads
\* that bring a choice with a shorthand member (grafted late, it still needs its implicit case)
ChoicePayload == << Stmt("choice", "pc", << Leaf("ps") >>) >>
LateTargets == { << Q("a","ax") >>, << Q("a","r") >>,
                 << Q("a","c"), Q("a","ch"), Q("a","sc") >>,
                 << Q("a","c"), Q("a","ch"), Q("a","sc"), Q("a","sc") >>,
                 << Q("a","c"), Q("a","act"), Q("a","input") >>,
                 << Q("a","c"), Q("a","act"), Q("a","output") >>,
                 << Q("a","r3"), Q("a","output"), Q("a","oc") >>,
                 \* descendant-form paths (no leading slash), which a top-level augment cannot have; they name a child of
                 \* the augment's own payload (x, y) or nothing
                 << Q("rel",""), Q("","x") >>, << Q("rel",""), Q("","y") >>, << Q("rel",""), Q("a","c") >>,
                 << Q("a","c") >> }
LateChain == { << Q("a","c"), Q("a","ch"), Q("a","sc"), Q("a","sc") >>,
               << Q("a","c"), Q("a","ch"), Q("a","sc"), Q("a","sc"), Q("b","x") >>,
               << Q("a","c"), Q("a","ch"), Q("a","sc"), Q("a","sc"), Q("b","pc") >>,
               << Q("a","c"), Q("b","pc") >>,
               << Q("a","e") >>,          \* (independent of what b does)
               << Q("a","c"), Q("b","x") >> }
\* two modules may declare the SAME own prefix string (prefixes only have to differ among the imports of one module):
\* here b calls itself "a" and imports module a as "x"; what b grafts belongs to b all the same
ModBX(augs) == [name |-> "b", kind |-> "module", pfx |-> "a", ns |-> "urn:b", belongs |-> "",
                imports |-> [x \in {"x"} |-> "a"], includes |-> <<>>,
                body |-> << Stmt("grouping", "bg", << Leaf("bgl") >>), Stmt("container", "bdata", << Leaf("bl") >>) >> \o augs]
RenX(t) == [rk \in DOMAIN t |-> IF t[rk].p = "a" THEN Q("x", t[rk].n) ELSE IF t[rk].p = "b" THEN Q("a", t[rk].n) ELSE t[rk]]
SAugSamePfx(dummy) ==
  { Prog(("a" :> BaseA("unset")) @@ ("b" :> ModBX(<<Aug(RenX(t1), p1)>>)) @@ ("c" :> ModC(<<Aug(t2, p2)>>))) :
      t1 \in {<< Q("a","c") >>, << Q("a","c"), Q("a","ch") >>, << Q("a","e") >>, << Q("a","r"), Q("a","input") >>, << Q("a","c"), Q("a","ch"), Q("a","sc"), Q("a","sc") >>},
      \* (the last payload collides with the children of /a:c on TWO names: both collisions are reported, in every run)
      p1 \in {<< Leaf("y") >>, XPayload, ChoicePayload, << Uses("", "bg") >>, << Uses("a", "bg") >>, << Leaf("l"), Leaf("d"), Leaf("fresh") >>},
      t2 \in {<< Q("a","c"), Q("b","x") >>, << Q("a","c") >>, << Q("a","c"), Q("b","pc") >>}, p2 \in {<< Leaf("y") >>, << Uses("b", "bg") >>} }
SAugLate(dummy) ==
  { Prog(("a" :> BaseA("unset")) @@ ("b" :> ModB(<<Aug(t1, p1)>>)) @@ ("c" :> ModC(<<Aug(t2, p2)>>))) :
      t1 \in LateTargets, p1 \in {<< Leaf("y") >>, XPayload, ChoicePayload}, t2 \in LateChain, p2 \in {<< Leaf("y") >>, ChoicePayload} }
  \cup SAugSamePfx(dummy)
SAugQuick(dummy) ==
  { Prog(("a" :> BaseA(cc)) @@ ("b" :> ModB(<<Aug(t1, p1)>>)) @@ ("c" :> ModC(<<Aug(t2, p2)>>))) :
      cc \in {"unset", "false"}, t1 \in Targets, p1 \in Payloads("b"), t2 \in ChainTargets, p2 \in ChainPayloads }
MCOrder == <<"a", "b", "c", "as", "bs">>
MCOrder2 == <<"a", "as", "b", "bs0", "bs", "c", "d", "dd", "ds", "u", "us", "w", "v", "vs">>

\* thorough: two augments in b (written in either order), one in c, one in b's submodule bs
ModBS(augs) == Mod("b", ImpA, <<"bs">>, << Stmt("grouping", "bg", << Leaf("bgl") >>) >> \o augs)
SubBS(augs) == Sub("bs", "b", ImpA, <<>>, augs)
SAugSub(dummy) ==
  { Prog(("a" :> BaseA("unset")) @@ ("b" :> ModBS(<<Aug(t1, p1)>>)) @@ ("bs" :> SubBS(<<Aug(t2, p2)>>))) :
      t1 \in Targets, p1 \in Payloads("b"), t2 \in ChainTargets, p2 \in ChainPayloads }
\* a base and ONE augmenting module (the work list shrinks to one entry after the base is dropped)
ModBData(augs) == Mod("b", ImpA, <<>>, << Stmt("grouping", "bg", << Leaf("bgl") >>), Stmt("container", "bdata", << Leaf("bl") >>) >> \o augs)
SAugPair(dummy) ==
  { Prog(("a" :> BaseA(cc)) @@ ("b" :> ModBData(<<Aug(t1, p1)>>))) : cc \in {"unset", "false"}, t1 \in Targets, p1 \in Payloads("b") }
  \cup { Prog(("a" :> BaseA("unset")) @@ ("b" :> ModBData(<<Aug(t1, p1), Aug(t2, p2)>>))) :
            t1 \in ChainTargets, p1 \in ChainPayloads, t2 \in ChainTargets, p2 \in ChainPayloads }
SAugSubQuick(dummy) ==
  { Prog(("a" :> BaseA("unset")) @@ ("b" :> ModBS(<<Aug(t1, p1)>>)) @@ ("bs" :> SubBS(<<Aug(t2, p2)>>))) :
      t1 \in {<< Q("a","c") >>, << Q("a","c"), Q("a","ch") >>}, p1 \in {XPayload, << Leaf("y") >>}, t2 \in ChainTargets, p2 \in ChainPayloads }
  \cup    \* the submodule that augments is reached only through another submodule (b includes bs0, bs0 includes bs), or through it first
  { Prog(("a" :> BaseA("unset")) @@ ("b" :> Mod("b", ImpA, incs, << Stmt("grouping", "bg", << Leaf("bgl") >>), Aug(t1, << Leaf("y") >>) >>))
         @@ ("bs0" :> Sub("bs0", "b", ImpA, <<"bs">>, <<>>)) @@ ("bs" :> SubBS(<<Aug(t2, p2)>>))) :
      incs \in {<<"bs0">>, <<"bs0", "bs">>, <<"bs", "bs0">>}, t1 \in {<< Q("a","c") >>}, t2 \in {<< Q("a","c") >>, << Q("a","e") >>, << Q("a","c"), Q("b","y") >>},
      p2 \in {<< Leaf("z") >>, XPayload, << Uses("b", "bg") >>} }
\* augments next to a deviation that takes the target (or an ancestor of it) away again: what went wrong while
\* augmenting is reported all the same; and augments of two modules whose path TEXTS are equal but mean different nodes
\* (each module's unprefixed absolute path is rooted in its own tree)
NotSupp(t) == Stmt("deviation", t, << Stmt("deviate", "not-supported", <<>>) >>)
SAugDev(dummy) ==
  { Prog(("a" :> BaseA("unset")) @@ ("b" :> ModB(<<Aug(t1, p1)>>)) @@ ("c" :> ModC(<<Aug(t2, p2), NotSupp(t3)>>))) :
      t1 \in {<< Q("a","c") >>, << Q("a","c"), Q("a","d") >>, << Q("a","e") >>}, p1 \in {<< Leaf("l") >>, << Leaf("y") >>, XPayload},
      t2 \in {<< Q("a","c") >>, << Q("a","e") >>}, p2 \in {<< Leaf("y") >>, << Leaf("gc") >>},
      t3 \in {<< Q("a","c") >>, << Q("a","c"), Q("a","d") >>, << Q("a","e") >>, << Q("a","li") >>} }
  \cup
  { Prog(("a" :> BaseA("unset"))
         @@ ("b" :> Mod("b", ImpA, <<>>, << Stmt("container", "cont", << Leaf("own") >>), Aug(<< Q("","cont") >>, payB), Aug(tb, << Leaf("fb") >>) >>))
         @@ ("c" :> Mod("c", ImpAB, <<>>, << Stmt("container", "cont", << Leaf("own") >>), Aug(<< Q("","cont") >>, payC), Aug(tb, << Leaf("fc") >>) >>))) :
      payB \in {<< Leaf("from_b") >>, << Leaf("same") >>}, payC \in {<< Leaf("from_c") >>, << Leaf("same") >>},
      tb \in {<< Q("a","c") >>, << Q("a","e") >>} }
SAugTwo(dummy) ==
  { Prog(("a" :> BaseA("unset")) @@ ("b" :> ModB(<<Aug(t1, p1), Aug(t2, p2)>>)) @@ ("c" :> ModC(<<Aug(t3, << Leaf("y") >>)>>))) :
      t1 \in ChainTargets, p1 \in ChainPayloads, t2 \in ChainTargets, p2 \in ChainPayloads, t3 \in ChainTargets }

\* ---- S_cfg: config at three depths, the subtrees placed by different mechanisms (C12) ----
CfgK(v) == IF v = "unset" THEN <<>> ELSE << Cfg(v) >>
T3(c3) == Stmt("leaf", "t3", << Stmt("type", "string", <<>>) >> \o CfgK(c3))
\* t2 and below, as statements written by module `who`
T2Body(c2, c3, m3) ==
  CfgK(c2) \o (CASE m3 = "plain" -> << T3(c3) >>
                  [] m3 = "uses"  -> << Uses("", "g3") >>
                  [] m3 = "choice" -> << Stmt("choice", "ch", << Stmt("case", "ca", << T3(c3) >>) >>) >>
                  [] m3 = "augment" -> <<>>)
T2(c2, c3, m3) == Stmt("container", "t2", T2Body(c2, c3, m3))
G3(c3) == Stmt("grouping", "g3", << T3(c3) >>)
G2(c2, c3, m3) == Stmt("grouping", "g2", << T2(c2, c3, m3) >>)
\* the wrapper holding t1: data tree, rpc input, rpc output, notification
Wrap(w, inner) ==
  CASE w = "data" -> inner
    [] w = "input" -> << Stmt("rpc", "rp", << Stmt("input", "input", inner) >>) >>
    [] w = "output" -> << Stmt("rpc", "rp", << Stmt("output", "output", inner) >>) >>
    [] w = "notif" -> << Stmt("notification", "no", inner) >>
WrapPath(w) == CASE w = "data" -> <<>> [] w = "input" -> << Q("a","rp"), Q("a","input") >>
                 [] w = "output" -> << Q("a","rp"), Q("a","output") >> [] w = "notif" -> << Q("a","no") >>
CfgProg(w, c1, c2, c3, m2, m3, insub) ==
  LET t1 == Stmt("container", "t1", CfgK(c1) \o
               (CASE m2 = "plain" -> << T2(c2, c3, m3) >>
                  [] m2 = "uses" -> << Uses("", "g2") >>
                  [] m2 = "choice" -> << Stmt("choice", "cc", << T2(c2, c3, m3) >>) >>      \* shorthand member
                  [] m2 = "augment" -> <<>>))
      defs == << G3(c3), G2(c2, c3, m3) >>
      body == defs \o Wrap(w, << t1 >>)
      p1 == WrapPath(w) \o << Q("a","t1") >>
      p2 == p1 \o (IF m2 = "choice" THEN << Q("a","cc"), Q("a","t2") >> ELSE << Q("a","t2") >>)
      augs == (IF m2 = "augment" THEN << Aug(p1, << T2(c2, c3, IF m3 = "uses" THEN "plain" ELSE m3) >>) >> ELSE <<>>)
              \o (IF m3 = "augment" THEN << Aug(p2, << T3(c3) >>) >> ELSE <<>>)
      a == IF insub THEN Mod("a", NoImp, <<"as">>, <<>>) ELSE Mod("a", NoImp, <<>>, body)
      b == Mod("b", ImpA, <<>>, augs)
  IN Prog(IF insub THEN ("a" :> a) @@ ("as" :> Sub("as", "a", NoImp, <<>>, body)) @@ ("b" :> b)
                   ELSE ("a" :> a) @@ ("b" :> b))
Tri == {"unset", "true", "false"}
SCfg(dummy) ==
  { CfgProg("data", c1, c2, c3, m2, m3, insub) :
       c1 \in Tri, c2 \in Tri, c3 \in Tri, m2 \in {"plain", "uses", "choice", "augment"},
       m3 \in {"plain", "uses", "choice", "augment"}, insub \in BOOLEAN }
  \cup { CfgProg(w, "unset", "unset", "unset", m2, m3, insub) :
       w \in {"input", "output", "notif"}, m2 \in {"plain", "uses", "choice", "augment"},
       m3 \in {"plain", "uses", "choice", "augment"}, insub \in BOOLEAN }

\* ---- S_uses: groupings defined and used in several places (C06) -------------------------
\* definer module d (with submodule ds), user module u (with submodule us), a third module w
Shape(k) ==       \* bodies of the grouping g1
  CASE k = 1 -> << Stmt("container", "k1", << LeafD("x", "dv"), Uses("", "g2") >>) >>
    [] k = 2 -> << Stmt("list", "k1", << Stmt("key", "x", <<>>), Leaf("x"), Stmt("min-elements", 1, <<>>), Uses("", "g2") >>),
                   Stmt("leaf-list", "ll", << Stmt("type", "string", <<>>), Stmt("default", "a", <<>>), Stmt("default", "b", <<>>), Stmt("default", "c", <<>>) >>) >>
    [] k = 3 -> << Stmt("container", "k1", << Cfg("false"), Stmt("choice", "ch", << Stmt("case", "ca", << Leaf("x") >>), Leaf("sh") >>) >>),
                   Uses("", "g2") >>
    [] k = 4 -> << Stmt("container", "k1", << Leaf("x"), Stmt("grouping", "g2", << Leaf("inner2") >>), Uses("", "g2") >>) >>
    [] k = 5 -> << Stmt("container", "k1", << Leaf("x"),
                      Stmt("action", "act", << Stmt("input", "input", << Leaf("ai") >>), Stmt("output", "output", << Leaf("ao"), Uses("", "g2") >>) >>) >>) >>
    [] k = 6 -> << Stmt("container", "k1", << Stmt("leaf", "x", << Stmt("type", "tdd", <<>>) >>), Stmt("container", "ext", <<>>) >>) >>       \* an empty container inside; x takes its default from its type
    [] k = 7 -> << Stmt("container", "k1", << Stmt("if-feature", "f1", <<>>), Stmt("if-feature", "f2", <<>>), Stmt("if-feature", "f3", <<>>),
                                               Stmt("leaf-list", "bl", << Stmt("type", "string", <<>>), Stmt("min-elements", 1, <<>>), Stmt("max-elements", 8, <<>>) >>),
                                               Leaf("x") >>) >>
    \* an identityref whose base is named without prefix: every module of the program defines an identity "local"
    [] k = 8 -> << Stmt("container", "k1", << Stmt("leaf", "x", << Stmt("type", "identityref", << Stmt("base", "local", <<>>) >>) >>),
                                               Stmt("leaf", "y", << Stmt("type", "tdd", <<>>) >>) >>) >>
G1(k) == Stmt("grouping", "g1", Shape(k))
\* where g1 (and the g2 next to it) is defined: d's top level, d's submodule, u's top level, u's submodule
\* the one typedef with a default; every module that defines it gives it a default of its own, so that WHICH tdd a type
\* statement inside a grouping denotes (the definer's, not the user's) shows in the default values in force
TddOf(m) == Stmt("typedef", "tdd", << Stmt("type", "string", <<>>), Stmt("default", "tdv-" \o m, <<>>) >>)
DefD == << TddOf("d"), Stmt("identity", "local", <<>>), Stmt("grouping", "g2", << Leaf("d2") >>) >>
UseSite(site, ref) ==     \* a statement of u that uses ref at the given kind of place
  CASE site = "top" -> Stmt("container", "s_" \o site, << [ref EXCEPT !.kids = << Stmt("if-feature", "fa", <<>>) >>] >>)      \* (kept inside a container so that two sites never collide)
    [] site = "list" -> Stmt("list", "s_list", << Stmt("key", "kk", <<>>), Leaf("kk"), ref >>)
    [] site = "input" -> Stmt("rpc", "s_rpc", << Stmt("input", "input", << ref >>) >>)
    [] site = "notif" -> Stmt("notification", "s_notif", << ref >>)
    [] site = "nested" -> Stmt("container", "s_nested", << Stmt("grouping", "gw", << ref >>), Stmt("uses", Q("", "gw"), <<>>) >>)
    [] site = "case" -> Stmt("choice", "s_choice", << Stmt("case", "s_case", << ref >>) >>)
    [] site = "cfgfalse" -> Stmt("container", "s_cf", << Cfg("false"), [ref EXCEPT !.kids = << Stmt("if-feature", "fb", <<>>) >>] >>)   \* uses with a constraint of its own
SitePath(site) ==
  CASE site = "top" -> << Q("u","s_top") >> [] site = "list" -> << Q("u","s_list") >>
    [] site = "input" -> << Q("u","s_rpc"), Q("u","input") >> [] site = "notif" -> << Q("u","s_notif") >>
    [] site = "nested" -> << Q("u","s_nested") >> [] site = "case" -> << Q("u","s_choice"), Q("u","s_case") >>
    [] site = "cfgfalse" -> << Q("u","s_cf") >>
Sites == {"top", "list", "input", "notif", "nested", "case", "cfgfalse"}
ImpD == [x \in {"d"} |-> "d"]
ImpU == [x \in {"u"} |-> "u"]
UsesProg(k, def, s1, s2, mut) ==
  LET ref == IF def \in {"d", "ds", "perfile", "subimp"} THEN Uses("d", "g1") ELSE IF def = "dd" THEN Uses("dd", "g1") ELSE Uses("", "g1")
      \* def = "wrap": u's own g1 wraps d's grouping of the same name
      \* u has a g2 of its own: names inside g1 must not bind to it when g1 lives in d
      uOwn == << TddOf("u"), Stmt("identity", "local", <<>>), Stmt("grouping", "g2", << Leaf("u2") >>) >>
      uBody == (IF def = "u" THEN << G1(k) >> ELSE <<>>)
               \o (IF def = "subimp" THEN << Stmt("grouping", "g1", << Leaf("decoy") >>) >> ELSE <<>>)
               \o (IF def = "wrap" THEN << Stmt("grouping", "g1", << Uses("d", "g1"), Leaf("wy") >>) >> ELSE <<>>) \o uOwn \o << UseSite(s1, ref) >> \o (IF s2 # s1 THEN << UseSite(s2, ref) >> ELSE <<>>)
      \* when g1 lives in module dd (prefix dd), module d (prefix d, imported first) holds a decoy of the same name
      dBody == DefD \o (IF def \in {"d", "wrap", "perfile", "subimp"} THEN << G1(k) >> ELSE <<>>)
                    \o (IF def = "dd" THEN << Stmt("grouping", "g1", << Leaf("decoy") >>) >> ELSE <<>>)
      target == SitePath(s1) \o << Q("u", "k1") >>
      wBody == CASE mut = "none" -> <<>>
                 [] mut = "augment" -> << Aug(target, << Leaf("grafted") >>) >>
                 [] mut = "notsupp" -> << Stmt("deviation", target, << Stmt("deviate", "not-supported", <<>>) >>) >>
                 [] mut = "config" -> << Stmt("deviation", target, << Stmt("deviate", "add", << Cfg("false") >>) >>) >>
                 [] mut = "maxelem" -> << Stmt("deviation", target, << Stmt("deviate", "replace", << Stmt("max-elements", 2, <<>>) >>) >>) >>
                 [] mut = "inaction" -> << Aug(target \o << Q("u", "act"), Q("u", "input") >>, << Leaf("grafted") >>) >>
                 [] mut = "mandatory" -> << Stmt("deviation", target \o << Q("u", "x") >>, << Stmt("deviate", "add", << Stmt("mandatory", "true", <<>>) >>) >>) >>
                 [] mut = "inext" -> << Aug(target \o << Q("u", "ext") >>, << Leaf("grafted") >>) >>
                 \* a default added to the leaf-list of BOTH instances: each copy keeps its own list
                 [] mut = "lldefs" -> << Stmt("deviation", SitePath(s1) \o << Q("u", "ll") >>, << Stmt("deviate", "add", << Stmt("default", "x1", <<>>) >>) >>),
                                         Stmt("deviation", SitePath(s2) \o << Q("u", "ll") >>, << Stmt("deviate", "add", << Stmt("default", "x2", <<>>) >>) >>) >>
                 [] mut = "llbounds" -> << Stmt("deviation", target \o << Q("u", "bl") >>,
                                                << Stmt("deviate", "replace", << Stmt("min-elements", 2, <<>>), Stmt("max-elements", 4, <<>>) >>) >>) >>
      u == Mod("u", IF def = "dd" THEN [x \in {"d", "dd"} |-> x] ELSE ImpD, IF def \in {"us", "perfile", "subimp"} THEN <<"us">> ELSE <<>>, uBody)
      d == Mod("d", NoImp, IF def = "ds" THEN <<"ds">> ELSE <<>>, dBody)
      w == Mod("w", ImpU, <<>>, wBody)
  IN Prog(("u" :> u) @@ ("d" :> d) @@ ("w" :> w)
          @@ (IF def = "us" THEN ("us" :> Sub("us", "u", ImpD, <<>>, << G1(k) >>)) ELSE << >>)
          \* def = "subimp": the use is written in a submodule of u whose belongs-to prefix is "uu" and which imports module d
          \* under the prefix "u" - the string module u uses for itself; u:g1 in that file is d's grouping, not u's own g1
          @@ (IF def = "subimp" THEN ("us" :> [Sub("us", "u", [x \in {"u"} |-> "d"], <<>>,
                                                   << Stmt("container", "s_sub", << Uses("u", "g1") >>) >>) EXCEPT !.pfx = "uu"]) ELSE << >>)
          \* def = "perfile": a prefix belongs to the file that declares it.  u says d:g1 and means module d; its submodule us
          \* calls its OWN module "d" (belongs-to u { prefix d; }) and has a grouping g1 of its own, which u's text does not mean
          @@ (IF def = "perfile" THEN ("us" :> [Sub("us", "u", NoImp, <<>>, << Stmt("grouping", "g1", << Leaf("decoy") >>) >>) EXCEPT !.pfx = "d"]) ELSE << >>)
          @@ (IF def = "dd" THEN ("dd" :> Mod("dd", NoImp, <<>>, << TddOf("dd"), Stmt("identity", "local", <<>>), Stmt("grouping", "g2", << Leaf("dd2") >>), G1(k) >>)) ELSE << >>)
          @@ (IF def = "ds" THEN ("ds" :> Sub("ds", "d", NoImp, <<>>, << G1(k), Stmt("grouping", "g2", << Leaf("ds2") >>) >>)) ELSE << >>))
MutOK(k, mut) == /\ mut \in {"inext", "mandatory"} => k = 6
                 /\ mut = "llbounds" => k = 7
                 /\ mut = "lldefs" => k = 2
                 /\ mut = "inaction" => k = 5
                 /\ mut = "maxelem" => k \in {1, 2}
Muts == {"none", "augment", "notsupp", "config", "maxelem", "inaction", "inext", "llbounds", "mandatory", "lldefs"}
Defs == {"d", "ds", "u", "dd", "wrap", "perfile", "subimp"}
SUses(dummy) ==
  { UsesProg(k[1], def, s1, s2, k[2]) : k \in {x \in (1..8) \X Muts : MutOK(x[1], x[2])}, def \in Defs, s1 \in Sites, s2 \in Sites }
SUsesQuick(dummy) ==
  { UsesProg(k[1], def, s1, s2, k[2]) : k \in {x \in (1..8) \X Muts : MutOK(x[1], x[2])}, def \in Defs,
                                        s1 \in {"top", "nested", "case"}, s2 \in {"top", "list", "notif", "cfgfalse"} }

\* ---- S_dev: deviations (C08) -----------------------------------------------------------
S1(kw, arg) == Stmt(kw, arg, <<>>)
DevBase ==
  << Stmt("grouping", "g", << LeafD("gl", "gd"),
                              Stmt("leaf-list", "gll", << S1("type", "string"), S1("min-elements", 2), S1("max-elements", 5) >>) >>),
     Stmt("rpc", "rp", << Stmt("input", "input", << Leaf("ri") >>), Stmt("output", "output", << Leaf("ro"), Leaf("ro2") >>) >>),
     LeafD("ld", "dv"),
     TddOf("a"), Stmt("leaf", "lt", << S1("type", "tdd") >>),
     Leaf("ln"),
     Stmt("leaf", "lm", << S1("type", "string"), S1("mandatory", "true") >>),
     Stmt("leaf-list", "ll", << S1("type", "string"), S1("min-elements", 2), S1("max-elements", 5) >>),
     Stmt("leaf-list", "lld", << S1("type", "string"), S1("default", "a"), S1("default", "b") >>),
     Stmt("list", "li", << S1("key", "k"), Leaf("k"), S1("min-elements", 2), S1("max-elements", 5) >>),
     Stmt("container", "co", << Cfg("true"), Leaf("inner") >>),
     Stmt("container", "u", << Uses("", "g") >>),
     Stmt("container", "u2", << Uses("", "g") >>),
     \* a choice with a shorthand member (reached through its implicit case) next to a written case
     Stmt("choice", "dch", << Leaf("sh"), Stmt("case", "ca", << Leaf("cl") >>) >>) >>
DevTargets ==     \* [path, kind]
  { [p |-> << Q("a","ld") >>, k |-> "leafd"], [p |-> << Q("a","ln") >>, k |-> "leaf"], [p |-> << Q("a","lt") >>, k |-> "leaf"], [p |-> << Q("a","lm") >>, k |-> "leaf"],
    [p |-> << Q("a","ll") >>, k |-> "leaf-list"], [p |-> << Q("a","lld") >>, k |-> "leaf-listd"],
    [p |-> << Q("a","li") >>, k |-> "list"], [p |-> << Q("a","co") >>, k |-> "container"],
    [p |-> << Q("a","u"), Q("a","gl") >>, k |-> "leafd"],
    [p |-> << Q("a","u"), Q("a","gll") >>, k |-> "leaf-list"],          \* one of two copies of a grouping's leaf-list
    [p |-> << Q("a","rp"), Q("a","input") >>, k |-> "io"],
    [p |-> << Q("a","rp"), Q("a","output"), Q("a","ro") >>, k |-> "leaf"],
    [p |-> << Q("a","co"), Q("b","grafted") >>, k |-> "leafd"],
    [p |-> << Q("a","dch"), Q("a","sh"), Q("a","sh") >>, k |-> "leaf"],  \* a shorthand member: its implicit case stays, empty
    [p |-> << Q("a","dch"), Q("a","ca"), Q("a","cl") >>, k |-> "leaf"],
    [p |-> << Q("a","nosuch") >>, k |-> "absent"] }
Dv(kind, kids) == Stmt("deviate", kind, kids)
Deviates ==
  { Dv("not-supported", <<>>), Dv("bogus", <<>>),
    Dv("add", << Cfg("false") >>), Dv("add", << S1("default", "z") >>), Dv("add", << S1("mandatory", "true") >>),
    Dv("add", << S1("min-elements", 1) >>), Dv("add", << S1("max-elements", 7) >>), Dv("add", << S1("units", "u") >>),
    Dv("replace", << S1("default", "w") >>), Dv("replace", << S1("type", "int8") >>), Dv("replace", << S1("type", "nosuch") >>),
    Dv("replace", << Cfg("true") >>), Dv("replace", << S1("max-elements", 3) >>), Dv("replace", << S1("min-elements", 1), S1("max-elements", UNB) >>), Dv("replace", << S1("min-elements", 4) >>),
    Dv("replace", << S1("mandatory", "false") >>), Dv("replace", << S1("units", "v") >>),
    Dv("replace", << S1("default", "w"), S1("units", "v"), Cfg("false") >>),
    Dv("delete", << S1("default", "dv") >>), Dv("delete", << S1("default", "other") >>),
    Dv("delete", << S1("min-elements", 2) >>), Dv("delete", << S1("min-elements", 9) >>), Dv("delete", << S1("max-elements", 5) >>),
    Dv("delete", << S1("mandatory", "true") >>), Dv("delete", << Cfg("true") >>) }
\* combinations on which the statement pins the outcome (DESIGN.md D.1, "outside" column)
Leafish(k) == k \in {"leaf", "leafd", "leaf-list", "leaf-listd"}
DevInClaim(k, d) ==
  /\ (Has(d.kids, "default") /\ d.arg = "delete") => k \in {"leaf", "leafd"}       \* delete default on a leaf-list: unsupported by design
  /\ (Has(d.kids, "default") /\ d.arg = "replace") => k \in {"leafd", "leaf-listd"} \* replace where none exists
  /\ (Has(d.kids, "default") /\ d.arg = "add") => Leafish(k)
  /\ (Has(d.kids, "type") \/ Has(d.kids, "units") \/ Has(d.kids, "mandatory")) => Leafish(k)
  /\ k \in {"absent", "io"} => d.arg = "not-supported"
Dev(t, ds) == Stmt("deviation", t.p, ds)
ModDevB == Mod("b", ImpA, <<>>, << Aug(<< Q("a","co") >>, << LeafD("grafted", "dv") >>) >>)
ImpABv == [x \in {"a", "b"} |-> x]
DevProg(vbody, wbody, ign) ==
  [mods |-> ("a" :> Mod("a", NoImp, <<>>, DevBase)) @@ ("b" :> ModDevB) @@ ("v" :> Mod("v", ImpABv, <<>>, vbody))
            @@ (IF wbody = <<>> THEN << >> ELSE ("w" :> Mod("w", ImpABv, <<>>, wbody))),
   ignoreNS |-> ign]
\* one deviation with one deviate statement, every target x every deviate, both option settings for not-supported
SDev1(dummy) ==
  { DevProg(<< Dev(t, << d >>) >>, <<>>, ign) : t \in DevTargets, d \in {x \in Deviates : TRUE}, ign \in BOOLEAN }
SDev1F(dummy) == { pr \in SDev1(0) :
                LET dv == pr.mods["v"].body[1]
                    t == CHOOSE x \in DevTargets : x.p = dv.arg IN
                /\ DevInClaim(t.k, dv.kids[1])
                /\ (pr.ignoreNS => dv.kids[1].arg = "not-supported") }
\* two deviate statements in one deviation, in both written orders, on the targets with the richest rules
PairTargets == {t \in DevTargets : t.k \in {"leafd", "leaf-list", "list", "leaf-listd"} /\ Len(t.p) = 1}
SDev2(dummy) ==
  { DevProg(<< Dev(t, << d1, d2 >>) >>, <<>>, FALSE) : t \in PairTargets,
       d1 \in {x \in Deviates : x.arg \in {"add", "replace", "delete"}}, d2 \in {x \in Deviates : x.arg \in {"add", "replace", "delete", "not-supported"}} }
SDev2F(dummy) == { pr \in SDev2(0) :
                    LET dv == pr.mods["v"].body[1]
                        t == CHOOSE x \in DevTargets : x.p = dv.arg IN
                    DevInClaim(t.k, dv.kids[1]) /\ DevInClaim(t.k, dv.kids[2]) /\ dv.kids[1] # dv.kids[2] }
\* three deviate statements in one deviation where a kind comes back after another kind
TripleDeviates == { Dv("add", << S1("default", "first") >>), Dv("delete", << S1("default", "first") >>), Dv("add", << S1("default", "second") >>),
                    Dv("replace", << Cfg("false") >>), Dv("delete", << Cfg("false") >>), Dv("replace", << Cfg("true") >>) }
SDevTriples(dummy) ==
  { DevProg(<< Dev(t, << d1, d2, d3 >>) >>, <<>>, FALSE) : t \in {x \in DevTargets : x.p \in {<< Q("a","ln") >>, << Q("a","ld") >>}},
       d1 \in TripleDeviates, d2 \in TripleDeviates, d3 \in TripleDeviates }
\* two deviations (same or different targets) in one module; two deviating modules with disjoint attributes
\* a deviation written in a SUBMODULE of the deviating module: the prefixes of its target path are those of the submodule's
\* own imports (here "a" is module a), whatever the including module binds the same prefix string to (here: module b)
DevSubProg(t, d) ==
  [mods |-> ("a" :> Mod("a", NoImp, <<>>, DevBase)) @@ ("b" :> ModDevB)
            @@ ("v" :> Mod("v", [x \in {"a", "b"} |-> "b"], <<"vs">>, <<>>))
            @@ ("vs" :> Sub("vs", "v", ImpA, <<>>, << Dev(t, << d >>) >>)),
   ignoreNS |-> FALSE]
SDevSub(dummy) ==
  { DevSubProg(t, d) : t \in {x \in DevTargets : x.p \in {<< Q("a","ld") >>, << Q("a","co") >>, << Q("a","u"), Q("a","gl") >>}},
                       d \in {Dv("replace", << S1("default", "w") >>), Dv("add", << Cfg("false") >>), Dv("not-supported", <<>>)} }
SDev3(dummy) ==
  SDevSub(0) \cup
  { DevProg(<< Dev(t1, << d1 >>), Dev(t2, << d2 >>) >>, <<>>, FALSE) :
       t1 \in {x \in DevTargets : x.p = << Q("a","ld") >>}, t2 \in {x \in DevTargets : x.k \in {"leafd", "container"}},
       d1 \in {Dv("delete", << S1("default", "dv") >>), Dv("add", << Cfg("false") >>), Dv("not-supported", <<>>)},
       d2 \in {Dv("add", << S1("default", "z") >>), Dv("replace", << S1("default", "w") >>), Dv("add", << Cfg("false") >>), Dv("not-supported", <<>>)} }
  \cup     \* not-supported written twice in one deviation, and again by a second deviation of the same target
  { DevProg(<< Dev(t, << Dv("not-supported", <<>>), Dv("not-supported", <<>>) >>) >>, <<>>, FALSE) :
       t \in {x \in DevTargets : x.p \in {<< Q("a","ld") >>, << Q("a","co") >>, << Q("a","u"), Q("a","gl") >>}} }
  \cup
  { DevProg(<< Dev(t, << d1 >>) >>, << Dev(t, << d2 >>) >>, FALSE) :
       t \in {x \in DevTargets : x.k = "leafd"},
       d1 \in {Dv("add", << Cfg("false") >>), Dv("replace", << S1("type", "int8") >>)},
       d2 \in {Dv("replace", << S1("default", "w") >>), Dv("add", << S1("units", "u") >>), Dv("replace", << S1("mandatory", "false") >>)} }

\* ---- S_split: a module body partitioned over submodules (C13) ------------------------------
SplitStmts == << Stmt("grouping", "g", << Leaf("gl") >>), Leaf("l1"),
                 Stmt("list", "li", << Stmt("key", "k", <<>>), Leaf("k") >>),
                 Stmt("container", "c2", << Leaf("x") >>) >>
PartBody(asg, part) == SelectSeq([k \in 1..4 |-> [s |-> SplitStmts[k], p |-> asg[k]]], LAMBDA x : x.p = part)
\* (the one typedef lives where the grouping lives: a typedef is contributed like everything else)
Body(asg, part) == LET b == PartBody(asg, part) IN [k \in 1..Len(b) |-> b[k].s] \o (IF asg[1] = part THEN << TddOf("m") >> ELSE <<>>)
SplitProg(asg, inc) ==
  LET mInc == CASE inc = "flat" -> <<"s1", "s2", "s3">> [] inc = "nested" -> <<"s1">> [] inc = "both" -> <<"s1", "s2", "s3">> [] inc = "rev" -> <<"s3", "s2">>
      s1Inc == CASE inc \in {"nested", "both"} -> <<"s2">> [] OTHER -> <<>>
      s2Inc == CASE inc = "rev" -> <<"s1">> [] inc = "nested" -> <<"s3">> [] OTHER -> <<>>
      m == Mod("m", NoImp, mInc, Body(asg, "m") \o << Stmt("container", "c1", << Uses("", "g") >>) >>)
      b == Mod("b", [x \in {"m"} |-> "m"], <<>>, << Aug(<< Q("m","c2") >>, << Leaf("y") >>), Aug(<< Q("m","c1") >>, << Leaf("z") >>) >>)
      \* augments written inside the submodules, aimed at their own module through the belongs-to prefix
      s1Aug == << Aug(<< Q("m","c2") >>, << Leaf("from_s1") >>) >>
      \* ... and through an absolute path without prefixes (the submodule's text is the module's text)
      s2Aug == << Aug(<< Q("m","c1") >>, << Leaf("from_s2") >>), Aug(<< Q("","li") >>, << Leaf("li_s2") >>),
                  Stmt("deviation", << Q("","l1") >>, << Stmt("deviate", "add", << Stmt("units", "u", <<>>) >>) >>) >>
      \* a use, written in s1 and another one in s2, of the grouping wherever it lives (the module itself, the same
      \* submodule, a sibling included earlier or - s3 - later)
      s1Use == << Stmt("container", "c3", << Uses("", "g") >>) >>
      \* (the leaf of the typedef'd type is written in s2: from there the typedef is at most one include away in every variant -
      \* its own includes, or its module and what the module includes; a typedef two includes deep is not claimed, 13.9)
      s2Use == << Stmt("container", "c4", << Uses("", "g") >>), Stmt("leaf", "lt", << Stmt("type", "tdd", <<>>) >>) >>
  IN Prog(("m" :> m) @@ ("s1" :> Sub("s1", "m", NoImp, s1Inc, Body(asg, "s1") \o s1Aug \o s1Use))
          @@ ("s2" :> Sub("s2", "m", NoImp, s2Inc, Body(asg, "s2") \o s2Aug \o s2Use))
          @@ ("s3" :> Sub("s3", "m", NoImp, <<>>, Body(asg, "s3"))) @@ ("b" :> b))
\* (the grouping may live in any of the four texts; the other three statements in the module or the first two submodules)
SSplit(dummy) == { SplitProg(asg, inc) : asg \in {f \in [1..4 -> {"m", "s1", "s2", "s3"}] : \A k \in 2..4 : f[k] # "s3"}, inc \in {"flat", "nested", "both", "rev"} }
MCOrder3 == <<"m", "s1", "s2", "s3", "b">>
====
