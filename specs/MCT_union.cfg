CONSTANTS
  Programs <- Space
INIT Init
NEXT Next
INVARIANTS Lexical ForeignExact NoRepeat ErrConsistent Export
CHECK_DEADLOCK FALSE
