CONSTANTS
  Chars = {"a", "N", ">"}
  NL = "N"
  PrefixSet <- MCPfx
  MaxText = 4
  MaxChunk = 2
  MaxCalls = 4
  INF = 99
INIT Init
NEXT Next
VIEW View
INVARIANTS TypeOK ChunkIndependent Truthful Export
PROPERTIES Monotone
CHECK_DEADLOCK FALSE
