---- MODULE MCS_dev2 ----
EXTENDS MCSchema
Space == SDev2F(0)
====
