CONSTANTS
  Points = {}
  ChainPoints = {}
  Parents = {}
  MaxParts = 0
  MaxChain = 0
  Toks = {}
  MaxToks = 0
INIT TInit
NEXT TNext
POSTCONDITION Consumed
CHECK_DEADLOCK FALSE
