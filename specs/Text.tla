------------------------------- MODULE Text -------------------------------
(***************************************************************************)
(* C02 / C16 (and the text layer of C01).  A scannerless reader for        *)
(* generic YANG, RFC 7950 section 6: characters -> tokens -> statement     *)
(* forest, one Feed action per character, then Finish.  It keeps the line, *)
(* the column (in characters) and the tab-expanded column, the             *)
(* continuation-line stripping state of double-quoted strings, a           *)
(* push-down-free shadow of the statement grammar (which token may come    *)
(* next, whether the argument being read belongs to `pattern`), and the    *)
(* faults met: lexical (invalid escape, unterminated string or comment)    *)
(* and syntactic (the first token the grammar does not allow).             *)
(* The whole reader state is one record `s`; Feed is a function on it.     *)
(***************************************************************************)
EXTENDS Naturals, Sequences, TLC, Json, FiniteSets
CONSTANTS Alphabet,   \* lexemes (character sequences) offered after the prefix
          MaxLen,     \* lexemes fed after the prefix
          Prefix,     \* fixed beginning of every text (a sequence of characters)
          Suffix,     \* fixed end appended to every explored text before it is judged
          PatternKw,  \* the keyword `pattern` as a character sequence
          LF, TAB, CR, DQ, SQ, BS

VARIABLE s
vars == <<s>>

NONE == [line |-> 0, col |-> 0, fuzzy |-> FALSE]

Blank(c) == c = " " \/ c = TAB
White(c) == c = " " \/ c = TAB \/ c = CR \/ c = LF
Punct(c) == c = ";" \/ c = "{" \/ c = "}"
Delim(c) == White(c) \/ Punct(c) \/ c = DQ \/ c = SQ

Chars(b) == [i \in 1..Len(b) |-> b[i][1]]
HasOpener(cs) == \E i \in 1..(Len(cs)-1) : cs[i] = "/" /\ (cs[i+1] = "/" \/ cs[i+1] = "*")

\* ---- shadow of the statement grammar ---------------------------------------
\* ps: kw (a keyword or `}` may come) | arg (keyword read) | argq (quoted
\* argument read, `+` may follow) | plus (`+` read) | term (argument complete)
\* | bad.  k: "U" unquoted, "S" quoted, or the punctuation character.
NextPs(p, d, k, t) ==
  CASE p = "bad" -> [ps |-> "bad", depth |-> d]
    [] k = "U" /\ p = "kw"   -> [ps |-> "arg", depth |-> d]
    [] k = "U" /\ p = "arg"  -> [ps |-> "term", depth |-> d]
    [] k = "U" /\ p = "argq" -> [ps |-> IF t = <<"+">> THEN "plus" ELSE "bad", depth |-> d]
    [] k = "U" /\ p \in {"plus", "term"} -> [ps |-> "bad", depth |-> d]
    [] k = "S" /\ p \in {"arg", "plus"} -> [ps |-> "argq", depth |-> d]
    [] k = "S" /\ p \in {"kw", "argq", "term"} -> [ps |-> "bad", depth |-> d]
    [] k = ";" /\ p \in {"arg", "argq", "term"} -> [ps |-> "kw", depth |-> d]
    [] k = "{" /\ p \in {"arg", "argq", "term"} -> [ps |-> "kw", depth |-> d + 1]
    [] k \in {";", "{"} /\ p \in {"kw", "plus"} -> [ps |-> "bad", depth |-> d]
    [] k = "}" /\ p = "kw" /\ d > 0 -> [ps |-> "kw", depth |-> d - 1]
    [] k = "}" -> [ps |-> "bad", depth |-> d]

\* is the argument that starts (or continues) after this token a `pattern` argument?
NextPat(p, pat, k, t) ==
  CASE k = "U" /\ p = "kw" -> t = PatternKw
    [] k = "S" \/ (k = "U" /\ p = "argq") -> pat    \* concatenation keeps the flag
    [] OTHER -> FALSE

\* token of kind k, text t, starting at (ln, cl), appended; the grammar shadow moves
Emit(r, k, t, ln, cl) ==
  LET np == NextPs(r.ps, r.depth, k, t) IN
  [r EXCEPT !.toks = Append(@, [k |-> k, t |-> t, line |-> ln, col |-> cl]),
            !.ps = np.ps, !.depth = np.depth, !.pat = NextPat(r.ps, r.pat, k, t),
            !.synerr = IF r.ps # "bad" /\ np.ps = "bad"
                       THEN [line |-> ln, col |-> cl, fuzzy |-> r.ps = "plus"] ELSE @]

\* a lexical fault at (ln, cl)
LexFault(r, ln, cl) ==
  [r EXCEPT !.nlex = @ + 1, !.lexpos = IF r.nlex = 0 THEN [line |-> ln, col |-> cl, fuzzy |-> FALSE] ELSE @]

\* trailing literal blanks removed before a line break
RECURSIVE TrimLit(_)
TrimLit(b) == IF b # <<>> /\ Blank(b[Len(b)][1]) /\ b[Len(b)][2] THEN TrimLit(SubSeq(b, 1, Len(b)-1)) ELSE b

\* position bookkeeping: r.line / r.col is the position of the NEXT character
Adv(r, c) ==
  [r EXCEPT !.text = Append(@, c),
            !.line = IF c = LF THEN @ + 1 ELSE @,
            !.col  = IF c = LF THEN 1 ELSE @ + 1,
            !.tc   = IF c = LF THEN 0 ELSE IF c = TAB THEN ((@ \div 8) + 1) * 8 ELSE @ + 1]

\* c read in the ground state: a is the advanced state, (ln, cl) the position of c
Ground(a, ln, cl, c) ==
  IF White(c) THEN [a EXCEPT !.mode = "ground", !.buf = <<>>]
  ELSE LET b == [a EXCEPT !.tl = ln, !.tcl = cl, !.buf = <<>>] IN
       IF Punct(c) THEN Emit([b EXCEPT !.mode = "ground"], c, <<>>, ln, cl)
       ELSE IF c = DQ THEN [b EXCEPT !.mode = "dq", !.qcol = a.tc, !.strip = FALSE]
       ELSE IF c = SQ THEN [b EXCEPT !.mode = "sq"]
       ELSE [b EXCEPT !.mode = (CASE c = "/" -> "slash" [] c = "+" -> "plus" [] OTHER -> "unq"),
                      !.buf = << <<c, TRUE>> >>]

\* the unquoted token in r.buf ends just before delimiter c
EndUnq(a, r, c) == Ground(Emit(a, "U", Chars(r.buf), r.tl, r.tcl), r.line, r.col, c)

Feed(r, c) ==
  LET a == Adv(r, c) IN
  CASE r.mode = "ground" -> Ground(a, r.line, r.col, c)
    [] r.mode = "unq" ->
         IF Delim(c) THEN EndUnq(a, r, c)
         ELSE LET nb == Append(r.buf, <<c, TRUE>>) IN
              [a EXCEPT !.buf = nb, !.out = @ \/ HasOpener(Chars(nb))]
    [] r.mode = "slash" ->
         IF c = "/" THEN [a EXCEPT !.mode = "lc", !.buf = <<>>]
         ELSE IF c = "*" THEN [a EXCEPT !.mode = "bc", !.buf = <<>>]
         ELSE IF Delim(c) THEN EndUnq(a, r, c)
         ELSE [a EXCEPT !.mode = "unq", !.buf = Append(r.buf, <<c, TRUE>>)]
    [] r.mode = "plus" ->
         IF Delim(c) THEN EndUnq(a, r, c)
         ELSE [a EXCEPT !.mode = "unq", !.buf = Append(r.buf, <<c, TRUE>>)]
    [] r.mode = "lc"  -> [a EXCEPT !.mode = IF c = LF THEN "ground" ELSE "lc"]
    [] r.mode = "bc"  -> [a EXCEPT !.mode = IF c = "*" THEN "bcs" ELSE "bc"]
    [] r.mode = "bcs" -> [a EXCEPT !.mode = IF c = "/" THEN "ground" ELSE IF c = "*" THEN "bcs" ELSE "bc"]
    [] r.mode = "sq" ->
         IF c = SQ THEN Emit([a EXCEPT !.mode = "ground", !.buf = <<>>], "S", Chars(r.buf), r.tl, r.tcl)
         ELSE [a EXCEPT !.buf = Append(r.buf, <<c, TRUE>>)]
    [] r.mode = "dq" ->
         IF c = DQ THEN Emit([a EXCEPT !.mode = "ground", !.buf = <<>>], "S", Chars(r.buf), r.tl, r.tcl)
         ELSE IF c = LF THEN
              LET b == TrimLit(r.buf) IN
              [a EXCEPT !.buf = Append(b, <<LF, TRUE>>), !.strip = TRUE,
                        !.out = @ \/ (b # <<>> /\ (Blank(b[Len(b)][1]) \/ b[Len(b)] = <<CR, TRUE>>))]
         ELSE IF Blank(c) THEN
              IF r.strip /\ a.tc <= r.qcol THEN a
              ELSE [a EXCEPT !.buf = Append(r.buf, <<c, TRUE>>), !.strip = FALSE,
                             !.out = @ \/ (r.strip /\ c = TAB /\ r.tc < r.qcol)]
         ELSE IF c = BS THEN [a EXCEPT !.mode = "dqe", !.strip = FALSE]
         ELSE [a EXCEPT !.buf = Append(r.buf, <<c, TRUE>>), !.strip = FALSE]
    [] r.mode = "dqe" ->      \* the backslash was the previous character: (r.line, r.col - 1)
         LET b == [a EXCEPT !.mode = "dq"] IN
         CASE c = "n" -> [b EXCEPT !.buf = Append(r.buf, <<LF, FALSE>>)]
           [] c = "t" -> [b EXCEPT !.buf = Append(r.buf, <<TAB, FALSE>>)]
           [] c = DQ \/ c = BS -> [b EXCEPT !.buf = Append(r.buf, <<c, FALSE>>)]
           [] OTHER ->
                LET d == [b EXCEPT !.buf = Append(Append(r.buf, <<BS, FALSE>>), <<c, FALSE>>),
                                   !.out = @ \/ (r.pat /\ c = LF)]
                IN IF r.pat THEN d ELSE LexFault(d, r.line, r.col - 1)

Init == s = [text |-> <<>>, mode |-> "ground", buf |-> <<>>, tl |-> 1, tcl |-> 1, toks |-> <<>>,
             line |-> 1, col |-> 1, tc |-> 0, qcol |-> 0, strip |-> FALSE,
             ps |-> "kw", depth |-> 0, pat |-> FALSE,
             nlex |-> 0, lexpos |-> NONE, synerr |-> NONE, out |-> FALSE, n |-> 0]

\* the alphabet consists of lexemes (character sequences; single characters
\* in the raw configurations); n counts the lexemes fed after the prefix
RECURSIVE FeedAll(_, _)
FeedAll(r, cs) == IF cs = <<>> THEN r ELSE FeedAll(Feed(r, Head(cs)), Tail(cs))
Next == IF Len(s.text) < Len(Prefix) THEN s' = Feed(s, Prefix[Len(s.text) + 1])
        ELSE \E lx \in Alphabet : s.n < MaxLen /\ s' = [FeedAll(s, lx) EXCEPT !.n = s.n + 1]
Spec == Init /\ [][Next]_vars

\* ---- end of input and the statement grammar ----------------------------------
Final(r) == IF r.mode \in {"unq", "slash", "plus"} THEN Emit(r, "U", Chars(r.buf), r.tl, r.tcl) ELSE r
Unterminated(r) == r.mode \in {"dq", "dqe", "sq", "bc", "bcs"}

Fail == [ok |-> FALSE, stmts |-> <<>>, rest |-> <<>>]

\* argument after the keyword: [has, arg, rest]
RECURSIVE Concat(_, _)
Concat(acc, ts) ==
  IF Len(ts) >= 2 /\ ts[1].k = "U" /\ ts[1].t = <<"+">> /\ ts[2].k = "S"
  THEN Concat(acc \o ts[2].t, SubSeq(ts, 3, Len(ts)))
  ELSE [has |-> TRUE, arg |-> acc, rest |-> ts]
Arg(ts) ==
  IF ts = <<>> THEN [has |-> FALSE, arg |-> <<>>, rest |-> ts]
  ELSE IF ts[1].k = "U" THEN [has |-> TRUE, arg |-> ts[1].t, rest |-> Tail(ts)]
  ELSE IF ts[1].k = "S" THEN Concat(ts[1].t, Tail(ts))
  ELSE [has |-> FALSE, arg |-> <<>>, rest |-> ts]

RECURSIVE Stmts(_, _)
Stmts(ts, depth) ==
  IF ts = <<>> THEN (IF depth = 0 THEN [ok |-> TRUE, stmts |-> <<>>, rest |-> <<>>] ELSE Fail)
  ELSE IF ts[1].k = "}" THEN (IF depth > 0 THEN [ok |-> TRUE, stmts |-> <<>>, rest |-> Tail(ts)] ELSE Fail)
  ELSE IF ts[1].k # "U" THEN Fail
  ELSE LET a == Arg(Tail(ts))
           r == a.rest
           mk(kids) == [kw |-> ts[1].t, has |-> a.has, arg |-> a.arg, kids |-> kids, line |-> ts[1].line, col |-> ts[1].col]
       IN IF r = <<>> THEN Fail
          ELSE IF r[1].k = ";" THEN
               LET more == Stmts(Tail(r), depth) IN
               IF more.ok THEN [ok |-> TRUE, stmts |-> <<mk(<<>>)>> \o more.stmts, rest |-> more.rest] ELSE Fail
          ELSE IF r[1].k = "{" THEN
               LET sub == Stmts(Tail(r), depth + 1) IN
               IF ~sub.ok THEN Fail
               ELSE LET more == Stmts(sub.rest, depth) IN
                    IF more.ok THEN [ok |-> TRUE, stmts |-> <<mk(sub.stmts)>> \o more.stmts, rest |-> more.rest] ELSE Fail
          ELSE Fail

\* the outcome of reading the text so far as a complete input:
\*   accept / forest; nf = number of faults that are about a particular token;
\*   err = position of that token when nf = 1 (fuzzy: a `+` not followed by a
\*   quoted string, where "the offending token" is disputable)
Result(r0) ==
  LET r == Final(r0)
      unt == Unterminated(r)
      \* a backslash with nothing after it is an invalid escape and leaves the string open
      nf == r.nlex + (IF r.synerr # NONE THEN 1 ELSE 0) + (IF unt THEN 1 ELSE 0) + (IF r.mode = "dqe" THEN 1 ELSE 0)
      p == IF nf = 0 THEN Stmts(r.toks, 0) ELSE Fail
      err == IF r.nlex > 0 THEN r.lexpos
             ELSE IF unt THEN [line |-> r.tl, col |-> r.tcl, fuzzy |-> FALSE]
             ELSE r.synerr
  IN [accept |-> p.ok, forest |-> p.stmts, nf |-> nf, err |-> err]

\* ---- properties of the reader itself ------------------------------------------
PosOK == /\ s.col >= 1 /\ s.line >= 1
         /\ \A i \in 1..Len(s.toks) : s.toks[i].line <= s.line /\ s.toks[i].col >= 1
\* column = 1 + characters since the last line feed, whatever was read on the way
ColIsCharCount ==
  LET t == s.text
      lfs == {i \in 1..Len(t) : t[i] = LF}
      last == IF lfs = {} THEN 0 ELSE CHOOSE i \in lfs : \A j \in lfs : j <= i
  IN s.col = Len(t) - last + 1 /\ s.line = Cardinality(lfs) + 1
\* the incremental grammar shadow and the recursive-descent grammar agree
ShadowAgrees ==
  LET r == Final(s) IN
  (r.nlex = 0 /\ ~Unterminated(r)) =>
     /\ r.ps = "bad" => ~Stmts(r.toks, 0).ok
     /\ r.ps # "bad" => (Stmts(r.toks, 0).ok <=> (r.ps = "kw" /\ r.depth = 0))
\* a rejected text yields no statements
RejectEmpty == ~Result(s).accept => Result(s).forest = <<>>
\* every statement starts where its keyword token starts, inside the text
RECURSIVE Positions(_)
Positions(f) == IF f = <<>> THEN {} ELSE {<<f[1].line, f[1].col>>} \cup Positions(f[1].kids) \cup Positions(Tail(f))
StmtPosInText == \A p \in Positions(Result(s).forest) : p[1] <= s.line /\ p[2] >= 1

Closed == FeedAll(s, Suffix)
Export == Len(s.text) < Len(Prefix) \/ PrintT(<<"CASE", ToJson([text |-> Closed.text, out |-> Closed.out, res |-> Result(Closed)])>>)
=============================================================================
