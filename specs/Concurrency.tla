---------------------------- MODULE Concurrency ----------------------------
(***************************************************************************)
(* C19.  Goroutines against the lock-protected tables of module sets.     *)
(* Each goroutine runs a short program of operations; an operation is a    *)
(* sequence of lock sections, each section = an Enter and an Exit step at  *)
(* exactly the points where the code is instrumented (inside the lock,     *)
(* right after acquiring it and right before releasing it):                *)
(*   ns     namespace -> module lookup     (mutex nsMu, one per set)       *)
(*   ecr    entry cache read               (RW mutex, read side)           *)
(*   ecw    entry cache write / clear      (RW mutex, write side)          *)
(*   td     typedef dictionary             (mutex)                         *)
(*   id     identity resolution            (mutex)                         *)
(* A lock is (set, kind); goroutines working on different sets never meet. *)
(***************************************************************************)
EXTENDS Naturals, Sequences, FiniteSets, TLC, Json
CONSTANTS Procs,     \* goroutine ids (1..n)
          Programs   \* set of assignments: goroutine -> sequence of sections [set, kind]

VARIABLES prog,    \* the chosen assignment
          pos,     \* goroutine -> index of its current section (Len+1 = finished)
          inside,  \* goroutine -> TRUE when between Enter and Exit of its current section
          sched    \* history: the steps taken, with the goroutines that were disabled before each
vars == <<prog, pos, inside, sched>>

LockOf(sec) == <<sec.set, IF sec.kind \in {"ecr", "ecw"} THEN "ec" ELSE sec.kind>>
Cur(g) == prog[g][pos[g]]
Active(g) == pos[g] <= Len(prog[g])
Holders(l) == {h \in Procs : Active(h) /\ inside[h] /\ LockOf(Cur(h)) = l}
\* may g enter its current section now?
CanEnter(g) ==
  /\ Active(g) /\ ~inside[g]
  /\ LET l == LockOf(Cur(g))  hs == Holders(l) IN
     IF Cur(g).kind = "ecr" THEN \A h \in hs : Cur(h).kind = "ecr"      \* readers share
     ELSE hs = {}
Disabled == {g \in Procs : Active(g) /\ ~inside[g] /\ ~CanEnter(g)}

Init == prog = << >> /\ pos = << >> /\ inside = << >> /\ sched = <<>>
Pick == /\ prog = << >> /\ prog' \in Programs
        /\ pos' = [g \in Procs |-> 1] /\ inside' = [g \in Procs |-> FALSE] /\ UNCHANGED sched
Enter(g) == /\ prog # << >> /\ CanEnter(g)
            /\ inside' = [inside EXCEPT ![g] = TRUE]
            /\ sched' = Append(sched, [g |-> g, ev |-> "enter", kind |-> Cur(g).kind, set |-> Cur(g).set, blocked |-> Disabled])
            /\ UNCHANGED <<prog, pos>>
Exit(g) == /\ prog # << >> /\ Active(g) /\ inside[g]
           /\ inside' = [inside EXCEPT ![g] = FALSE]
           /\ pos' = [pos EXCEPT ![g] = @ + 1]
           /\ sched' = Append(sched, [g |-> g, ev |-> "exit", kind |-> Cur(g).kind, set |-> Cur(g).set, blocked |-> Disabled])
           /\ UNCHANGED prog
Next == Pick \/ \E g \in Procs : Enter(g) \/ Exit(g)
Spec == Init /\ [][Next]_vars /\ WF_vars(Next)

\* ---- properties -----------------------------------------------------------------
Started == prog # << >>
\* at most one goroutine inside a mutex section; readers only with readers
Mutex == Started => \A a, b \in Procs :
   (a # b /\ Active(a) /\ Active(b) /\ inside[a] /\ inside[b] /\ LockOf(Cur(a)) = LockOf(Cur(b)))
      => (Cur(a).kind = "ecr" /\ Cur(b).kind = "ecr")
\* no goroutine waits for ever: whenever somebody is not finished, some step is enabled
NoDeadlock == Started => ((\E g \in Procs : Active(g)) => \E g \in Procs : CanEnter(g) \/ (Active(g) /\ inside[g]))
AllDone == Started /\ \A g \in Procs : ~Active(g)
Termination == <>AllDone
Export == ~AllDone \/ PrintT(<<"CASE", ToJson([prog |-> prog, sched |-> sched])>>)
=============================================================================
