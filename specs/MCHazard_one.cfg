CONSTANTS
  Dims <- MCDims
  DimSeq <- MCDimSeq
  MaxHazards = 1
INIT Init
NEXT Next
INVARIANTS TypeOK Export
CHECK_DEADLOCK FALSE
