CONSTANTS
  Dims <- MCDims
  MaxHazards = 1
INIT Init
NEXT Next
INVARIANTS TypeOK Export
CHECK_DEADLOCK FALSE
