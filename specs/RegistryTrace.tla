---- MODULE RegistryTrace ----
(* Direction B for C13: recorded histories of the real registry.  Random sequences of up to  *)
(* 14 loads of module and submodule texts (3 names each, up to 8 revision dates, 0-3         *)
(* revision statements per text written in any order), with queries in between: what the     *)
(* bare name denotes, what an import / include with and without revision-date binds to       *)
(* (after a Process run on the same set), and file choices in random directory layouts.      *)
(* Every load event steps Registry.tla's Load action and must report the acceptance the      *)
(* action computes; every query is answered from the registry state reached.  Non-blocking.  *)
EXTENDS Registry, IOUtils
Trace == ndJsonDeserialize(IOEnv.TRACE)
VARIABLES l, tid, rejected
tvars == <<vars, l, tid, rejected>>
Ev == Trace[l]
Fresh == /\ mode' = "reg" /\ loads' = <<>> /\ oks' = <<>> /\ reg' = {}
         /\ layout' = <<>> /\ want' = [mod |-> "", rev |-> 0]
TInit == /\ l = 1 /\ tid = 0 /\ rejected = FALSE
         /\ mode = "reg" /\ loads = <<>> /\ oks = <<>> /\ reg = {} /\ layout = <<>> /\ want = [mod |-> "", rev |-> 0]
Reset == /\ l <= Len(Trace) /\ Ev.ev = "reset" /\ tid' = Ev.tid /\ rejected' = FALSE /\ l' = l + 1 /\ Fresh
SeqSet(s) == {s[j] : j \in 1..Len(s)}
DescOf(e) == [name |-> e.name, revs |-> SeqSet(e.revs), tag |-> e.tag]
\* a load: the action of the specification, with the logged acceptance
TLoad == /\ l <= Len(Trace) /\ Ev.ev = "load" /\ ~rejected
         /\ Load(DescOf(Ev)) /\ oks'[Len(oks')] = Ev.ok
         /\ l' = l + 1 /\ UNCHANGED <<tid, rejected>>
\* queries: answered by the state
QueryOK(e) == CASE e.ev = "bare" -> e.tag = Bare(e.name)
                [] e.ev = "import" -> e.tag = (IF e.rev = 0 THEN Bare(e.name) ELSE Exact(e.name, e.rev))
                [] e.ev = "findfile" ->
                     LET L == [k \in 1..Len(e.layout) |-> SeqSet(e.layout[k])]
                         c == ChooseFile(L, 1, e.want)
                     IN c.dir = e.chosen.dir /\ c.file = e.chosen.file
                [] OTHER -> FALSE
TQuery == /\ l <= Len(Trace) /\ Ev.ev \in {"bare", "import", "findfile"} /\ ~rejected /\ QueryOK(Ev)
          /\ l' = l + 1 /\ UNCHANGED <<vars, tid, rejected>>
\* reason codes: 1 acceptance of a load, 2 bare name, 3 import / include binding, 4 file choice
Code(e) == CASE e.ev = "load" -> 1 [] e.ev = "bare" -> 2 [] e.ev = "import" -> 3 [] OTHER -> 4
TReject == /\ l <= Len(Trace) /\ ~rejected
           /\ \/ Ev.ev = "load" /\ (~Dup(DescOf(Ev))) # Ev.ok
              \/ Ev.ev \in {"bare", "import", "findfile"} /\ ~QueryOK(Ev)
           /\ PrintT(<<"REJECT", tid, l, Code(Ev)>>)
           /\ rejected' = TRUE /\ l' = l + 1 /\ UNCHANGED <<vars, tid>>
TSkip == /\ l <= Len(Trace) /\ Ev.ev # "reset" /\ rejected /\ l' = l + 1 /\ UNCHANGED <<vars, tid, rejected>>
TNext == Reset \/ TLoad \/ TQuery \/ TReject \/ TSkip
\* the registry invariants hold in every state the recorded histories drive the specification through
TLatestWins == \A n \in {x.name : x \in reg} : \A y \in Named(n) : Latest(y) <= Latest(Newest(n))
Consumed == TLCGet("stats").diameter - 1 = Len(Trace)
====
