CONSTANTS
  Mags <- MCMags
  FDs <- MCFDsQuick
  Signs <- MCSigns
  U64MAX <- MCU64
  I64MAX <- MCI64
  I64MINABS <- MCI64M
INIT Init
NEXT Next
INVARIANTS Trichotomy Symmetric Irreflexive PrintParse IntExact ParseExact Export
CHECK_DEADLOCK FALSE
