---- MODULE MCI_three ----
EXTENDS MCIdent
Space == SIdent3(0)
====
