CONSTANTS
  Descs = {}
  MaxLoads = 1000
  ImportRevs = {}
  Layouts = {}
  Wanted = {}
INIT TInit
NEXT TNext
INVARIANTS TLatestWins DupRejected
POSTCONDITION Consumed
CHECK_DEADLOCK FALSE
