CONSTANTS
  Good <- MCGoodRev
  Bad = {}
  MaxOps = 5
  WithGet = FALSE
INIT Init
NEXT Next
INVARIANTS BatchEq Idempotent NamesUnique Export
CHECK_DEADLOCK FALSE
