CONSTANTS
  MaxKids = 40
  Extra = {"zz", "ex:t", "ex:Name", "key", "Name", "Statement", "Parent", "Ext", ":x", "x:", "a:b:c"}
INIT TInit
NEXT TNext
POSTCONDITION Consumed
CHECK_DEADLOCK FALSE
