CONSTANTS
  Programs <- Space
INIT Init
NEXT Next
INVARIANTS ErrRight Exactly Once NotSelf Transitive FixedOrder Export
CHECK_DEADLOCK FALSE
