---- MODULE AstTrace ----
(* Direction B for C03: wide random nodes (up to 30 substatements, far beyond *)
(* the exhaustive bound) built by the real library; the observed filing of   *)
(* every substatement (field keyword -> indices, extensions list, links) is  *)
(* judged by Ast.tla's declarative properties: built exactly when the node   *)
(* has no fault, and then one-to-one.  Non-blocking.                         *)
EXTENDS Ast, IOUtils
Trace == ndJsonDeserialize(IOEnv.TRACE)
VARIABLES l, tid
tvars == <<vars, l, tid>>
Ev == Trace[l]
TInit == /\ l = 1 /\ tid = 0 /\ ptype = "Top" /\ pkw = "module" /\ kids = <<>>
         /\ seen = {} /\ fields = <<>> /\ exts = <<>> /\ fault = NoFault
Reset == /\ l <= Len(Trace) /\ Ev.ev = "reset" /\ tid' = Ev.tid /\ l' = l + 1 /\ UNCHANGED vars
LegalOf(t) == Gram[t].one \cup Gram[t].many
\* the observed outcome becomes the state the declarative properties are evaluated on
Apply(e) == /\ ptype' = e.ptype /\ pkw' = e.pkw /\ kids' = e.kids
            /\ seen' = {e.kids[i] : i \in 1..Len(e.kids)} \cap LegalOf(e.ptype)
            /\ fields' = e.fields /\ exts' = e.exts
            /\ fault' = IF e.ok THEN NoFault ELSE [kind |-> "observed", idx |-> 0]
Good(e) == /\ (NFaults = 0)' = e.ok                 \* built exactly when nothing is wrong with the node
           /\ e.ok => (OneToOne' /\ e.links)         \* and then filed one-to-one, with parent links and statement references
TBuilt == /\ l <= Len(Trace) /\ Ev.ev = "built"
          /\ LET e == Ev IN Apply(e) /\ Good(e)
          /\ l' = l + 1 /\ UNCHANGED tid
TReject == /\ l <= Len(Trace) /\ Ev.ev = "built"
           /\ LET e == Ev IN Apply(e) /\ ~Good(e)
           /\ PrintT(<<"REJECT", tid, l>>)
           /\ l' = l + 1 /\ UNCHANGED tid
TNext == Reset \/ TBuilt \/ TReject
TSpec == TInit /\ [][TNext]_tvars
Consumed == TLCGet("stats").diameter - 1 = Len(Trace)
====
