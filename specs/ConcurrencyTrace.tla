---- MODULE ConcurrencyTrace ----
(* Recorded lock-section events of real executions (gated replays of TLC's  *)
(* schedules and free-running stress), one event per hook point, judged by  *)
(* the lock discipline of Concurrency.tla: an Enter must be enabled (nobody *)
(* inside a mutex; only readers inside the RW lock when a reader enters),   *)
(* an Exit must match the section the goroutine is in, and every operation  *)
(* must return what the sequential run returns.                             *)
EXTENDS Naturals, Sequences, FiniteSets, TLC, Json, IOUtils
Trace == ndJsonDeserialize(IOEnv.TRACE)
VARIABLES l, tid, rejected, inside     \* inside: set of [g, kind, set]
Ev == Trace[l]
TInit == l = 1 /\ tid = 0 /\ rejected = FALSE /\ inside = {}
Reset == /\ l <= Len(Trace) /\ Ev.ev = "reset" /\ tid' = Ev.tid /\ rejected' = FALSE /\ inside' = {} /\ l' = l + 1
LockKind(k) == IF k \in {"ecr", "ecw"} THEN "ec" ELSE k
Holders(e) == {h \in inside : h.set = e.set /\ LockKind(h.kind) = LockKind(e.kind)}
EnterOK(e) == /\ \A h \in inside : h.g # e.g \/ h.set # e.set \/ LockKind(h.kind) # LockKind(e.kind)    \* not re-entered
              /\ IF e.kind = "ecr" THEN \A h \in Holders(e) : h.kind = "ecr" ELSE Holders(e) = {}
ExitOK(e) == [g |-> e.g, kind |-> e.kind, set |-> e.set] \in inside
ResultOK(e) == e.value = e.expected
StepOK(e) == CASE e.ev = "enter" -> EnterOK(e) [] e.ev = "exit" -> ExitOK(e) [] e.ev = "result" -> ResultOK(e) [] OTHER -> FALSE
TStep == /\ l <= Len(Trace) /\ Ev.ev # "reset" /\ ~rejected /\ StepOK(Ev)
         /\ inside' = CASE Ev.ev = "enter" -> inside \cup {[g |-> Ev.g, kind |-> Ev.kind, set |-> Ev.set]}
                        [] Ev.ev = "exit" -> inside \ {[g |-> Ev.g, kind |-> Ev.kind, set |-> Ev.set]}
                        [] OTHER -> inside
         /\ l' = l + 1 /\ UNCHANGED <<tid, rejected>>
TReject == /\ l <= Len(Trace) /\ Ev.ev # "reset" /\ ~rejected /\ ~StepOK(Ev)
           /\ PrintT(<<"REJECT", tid, l>>)
           /\ rejected' = TRUE /\ l' = l + 1 /\ UNCHANGED <<tid, inside>>
TSkip == /\ l <= Len(Trace) /\ Ev.ev # "reset" /\ rejected /\ l' = l + 1 /\ UNCHANGED <<tid, rejected, inside>>
TNext == Reset \/ TStep \/ TReject \/ TSkip
Consumed == TLCGet("stats").diameter - 1 = Len(Trace)
\* the invariant of the design, on every state of the real execution
TMutex == ~rejected => \A a, b \in inside : (a # b /\ a.set = b.set /\ LockKind(a.kind) = LockKind(b.kind)) => (a.kind = "ecr" /\ b.kind = "ecr")
====
