CONSTANTS
  Programs <- Space
  CanonOrder <- MCOrder3
INIT Init
NEXT Next
VIEW View
INVARIANTS Confluence ExactlyOnce NeverTwice ProperTrees SplitInvariant Export
PROPERTIES AppliedStays
CHECK_DEADLOCK FALSE
