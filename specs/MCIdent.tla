---- MODULE MCIdent ----
EXTENDS Identities
K(m, n) == <<m, n>>
Id(key, home, bases) == [key |-> key, home |-> home, bases |-> bases]
UpTo(S, n) == {T \in SUBSET S : Cardinality(T) <= n}
\* a:x in module a, a:y in its submodule as, b:x and b:y in module b (a imports b), c:z in module c (imports a and b)
ATargets == {K("a","x"), K("a","y"), K("b","x"), K("b","y"), UNDEF}
BTargets == {K("b","x"), K("b","y"), UNDEF}
Opt(S) == S \cup {{}}      \* a slot is absent ({}) or present with one of the records in S
Slot(key, home, targets, n) == {{Id(key, home, bs)} : bs \in UpTo(targets, n)}
SIdent(na, nb) ==
  { ax \cup ay \cup bx \cup by :
      ax \in Opt(Slot(K("a","x"), "a", ATargets, na)), ay \in Opt(Slot(K("a","y"), "as", ATargets, na)),
      bx \in Opt(Slot(K("b","x"), "b", BTargets, nb)), by \in Opt(Slot(K("b","y"), "b", BTargets, nb)) } \ {{}}
\* with a third module: c:x and c:y may derive from anything (same names as in a and b: ties in the name order)
CTargets == ATargets \cup {K("c","x")}
SIdent3(dummy) ==
  { ax \cup bx \cup by \cup cx \cup cy :
      ax \in Opt(Slot(K("a","x"), "a", {K("b","x"), K("b","y")}, 1)),
      bx \in Opt(Slot(K("b","x"), "b", {K("b","y")}, 1)), by \in Opt(Slot(K("b","y"), "b", {UNDEF}, 1)),
      cx \in Opt(Slot(K("c","x"), "c", CTargets, 2)), cy \in Opt(Slot(K("c","y"), "c", CTargets, 2)) } \ {{}}
====
