------------------------------ MODULE Schema ------------------------------
(***************************************************************************)
(* C04 C05 C06 C07 C08 C12 C13 C17.  The resolved schema of a module set:  *)
(*   build   every module's tree is instantiated from its statements       *)
(*           (uses = an inlined copy of the grouping found by lexical      *)
(*           scope; included submodules contribute their nodes)            *)
(*   order   the augment loop takes the modules and submodules in an       *)
(*           arbitrary order (a Go map in the code)                        *)
(*   aug     one action per module visit: its pending augments are tried   *)
(*           in written order, applied ones leave the pending list; a      *)
(*           module with nothing pending leaves the work list by swap      *)
(*           removal; rounds repeat until one makes no progress            *)
(*   fix     implicit cases are inserted; if augments are left over the    *)
(*           loop runs again (a path through an implicit case resolves     *)
(*           only now) until a whole pass applies nothing; what is still   *)
(*           pending then is an error                                      *)
(*   dev     deviating modules are taken in an arbitrary order, their      *)
(*           deviations and deviate statements in written order            *)
(* Trees are nested records (sharing is impossible by construction); Flat  *)
(* projects a tree to the set of per-path facts that the harness observes  *)
(* (kind, ReadOnly, Namespace, attributes).  Errors are tracked as         *)
(* presence only.                                                          *)
(***************************************************************************)
EXTENDS Naturals, Sequences, FiniteSets, TLC, Json
CONSTANTS Programs,     \* operator set: the programs explored (see MCSchema)
          CanonOrder    \* a fixed sequence of all module names (for Canon)

VARIABLES prog,     \* the program: [mods : name -> module record, ignoreNS : BOOLEAN]
          trees,    \* module name -> root node
          pending,  \* (sub)module name -> augment statements not yet applied
          work,     \* the augment loop's work list (a sequence of names)
          i,        \* position in work
          progress, \* augments applied in the current round
          devleft,  \* names of the modules whose deviations are still to apply
          errs,     \* an error has been recorded
          pc,       \* pick | build | order | aug | fix | dev | done
          sincefix, \* augments applied since the implicit cases were last inserted
          nfix,     \* how often they have been inserted
          naug      \* history: number of augment applications
vars == <<prog, trees, pending, work, i, progress, devleft, errs, pc, sincefix, nfix, naug>>

\* ---- vocabulary ---------------------------------------------------------------
DataKw == {"container", "list", "leaf", "leaf-list", "choice", "case", "rpc", "action",
           "input", "output", "notification", "anyxml", "anydata"}
Childless == {"leaf", "leaf-list", "anyxml", "anydata"}
Augmentable == {"container", "list", "choice", "case", "input", "output", "notification"}     \* RFC 7950 7.17
UNB == 999999            \* max-elements unbounded
Stmt(kw, arg, kids) == [kw |-> kw, arg |-> arg, kids |-> kids]
ToSet(s) == {s[k] : k \in 1..Len(s)}
Perms(S) == {f \in [1..Cardinality(S) -> S] : \A a, b \in 1..Cardinality(S) : a # b => f[a] # f[b]}
Has(kids, kw) == \E k \in 1..Len(kids) : kids[k].kw = kw
First(kids, kw) == kids[CHOOSE k \in 1..Len(kids) : kids[k].kw = kw /\ \A j \in 1..(k-1) : kids[j].kw # kw]
Attr(kids, kw, d) == IF Has(kids, kw) THEN First(kids, kw).arg ELSE d
Args(kids, kw) == LET s == SelectSeq(kids, LAMBDA x : x.kw = kw) IN [k \in 1..Len(s) |-> s[k].arg]

P == prog.mods
Owner(PP, m) == IF PP[m].kind = "submodule" THEN PP[m].belongs ELSE m     \* the module a (sub)module's text belongs to
NSOf(PP, m) == PP[Owner(PP, m)].ns

NoLA == [has |-> FALSE, min |-> 0, max |-> UNB]
\* tmod: the module whose text holds the statement (for a submodule's text: its module); a type name written on the
\* statement is resolved there, wherever a uses or an augment places the node
Node(name, kind, kids, sub, tmod) ==
  [name |-> name, kind |-> kind, tmod |-> IF kind \in {"leaf", "leaf-list"} THEN tmod ELSE "",
   cfg |-> Attr(kids, "config", "unset"), mand |-> Attr(kids, "mandatory", "unset"),
   dflt |-> IF kind \in {"leaf", "leaf-list", "choice"} THEN Args(kids, "default") ELSE <<>>,
   la |-> IF kind \in {"list", "leaf-list"}
          THEN [has |-> TRUE, min |-> Attr(kids, "min-elements", 0), max |-> Attr(kids, "max-elements", UNB)] ELSE NoLA,
   units |-> "", type |-> IF kind \in {"leaf", "leaf-list"} THEN Attr(kids, "type", "") ELSE "",
   iff |-> Args(kids, "if-feature"),     \* constraints written on the statement (and on the uses / augment that placed it)
   ns |-> "", implicit |-> FALSE, kids |-> sub]
\* the if-feature statements of a uses or augment statement constrain every node it places
Constrain(nodes, stmtKids) == [k \in 1..Len(nodes) |-> [nodes[k] EXCEPT !.iff = @ \o Args(stmtKids, "if-feature")]]

\* ---- grouping lookup by lexical scope -------------------------------------------
\* a scope is a sequence of frames [mod, kids], innermost first, the last one being
\* the body of the (sub)module in which the text is written
Groupings(kids, n) == SelectSeq(kids, LAMBDA x : x.kw = "grouping" /\ x.arg = n)
RECURSIVE InIncludes(_, _, _, _)
InIncludes(PP, incs, n, seen) ==      \* top level of the included submodules, depth first
  IF incs = <<>> THEN [found |-> FALSE]
  ELSE LET sm == Head(incs) IN
       IF sm \in seen \/ sm \notin DOMAIN PP THEN InIncludes(PP, Tail(incs), n, seen)
       ELSE LET gs == Groupings(PP[sm].body, n) IN
            IF gs # <<>> THEN [found |-> TRUE, stmt |-> gs[1], scope |-> << [mod |-> sm, kids |-> PP[sm].body] >>]
            ELSE LET deeper == InIncludes(PP, PP[sm].includes, n, seen \cup {sm}) IN
                 IF deeper.found THEN deeper ELSE InIncludes(PP, Tail(incs), n, seen \cup {sm})
RECURSIVE InFrames(_, _, _, _)
InFrames(PP, scope, k, n) ==
  IF k > Len(scope) THEN [found |-> FALSE]
  ELSE LET gs == Groupings(scope[k].kids, n) IN
       IF gs # <<>> THEN [found |-> TRUE, stmt |-> gs[1], scope |-> SubSeq(scope, k, Len(scope))]
       ELSE IF k = Len(scope)
            THEN LET m == scope[k].mod
                     own == InIncludes(PP, PP[m].includes, n, {m}) IN
                 \* a submodule's text is its module's text: the module's own top level and its other submodules come last
                 IF own.found \/ PP[m].kind # "submodule" \/ PP[m].belongs \notin DOMAIN PP THEN own
                 ELSE LET o == PP[m].belongs
                          gs2 == Groupings(PP[o].body, n) IN
                      IF gs2 # <<>> THEN [found |-> TRUE, stmt |-> gs2[1], scope |-> << [mod |-> o, kids |-> PP[o].body] >>]
                      ELSE InIncludes(PP, PP[o].includes, n, {m, o})
            ELSE InFrames(PP, scope, k + 1, n)
OwnPrefix(PP, m) == PP[m].pfx      \* for a submodule: the prefix of its belongs-to statement
FindGrouping(PP, scope, ref) ==
  LET m == scope[Len(scope)].mod IN
  IF ref.p = "" \/ ref.p = OwnPrefix(PP, m) THEN InFrames(PP, scope, 1, ref.n)
  ELSE IF ref.p \in DOMAIN PP[m].imports /\ PP[m].imports[ref.p] \in DOMAIN PP THEN
       LET t == PP[m].imports[ref.p] IN InFrames(PP, << [mod |-> t, kids |-> PP[t].body] >>, 1, ref.n)
  ELSE [found |-> FALSE]

\* ---- instantiation: statements -> nodes (uses inlined) ------------------------------
Names(ns) == [k \in 1..Len(ns) |-> ns[k].name]
Dup(ns) == \E a, b \in 1..Len(ns) : a < b /\ ns[a].name = ns[b].name
RECURSIVE Inst(_, _, _)
Inst(PP, stmts, scope) ==      \* [nodes, err]
  IF stmts = <<>> THEN [nodes |-> <<>>, err |-> FALSE]
  ELSE LET s == Head(stmts)
           m == scope[Len(scope)].mod
           rest == Inst(PP, Tail(stmts), scope)
           one ==
             IF s.kw \in DataKw THEN
                  LET sub == Inst(PP, s.kids, << [mod |-> m, kids |-> s.kids] >> \o scope)
                      nm == IF s.kw \in {"input", "output"} THEN s.kw ELSE s.arg
                  IN [nodes |-> << Node(nm, s.kw, s.kids, sub.nodes, Owner(PP, m)) >>, err |-> sub.err \/ Dup(sub.nodes)]
             ELSE IF s.kw = "uses" THEN
                  LET g == FindGrouping(PP, scope, s.arg) IN
                  IF ~g.found THEN [nodes |-> <<>>, err |-> TRUE]
                  ELSE LET c == Inst(PP, g.stmt.kids, << [mod |-> g.scope[Len(g.scope)].mod, kids |-> g.stmt.kids] >> \o g.scope)
                       IN [c EXCEPT !.nodes = Constrain(@, s.kids)]
             ELSE IF s.kw = "grouping" THEN      \* parsed for its errors only
                  LET gi == Inst(PP, s.kids, << [mod |-> m, kids |-> s.kids] >> \o scope) IN
                  [nodes |-> <<>>, err |-> gi.err \/ Dup(gi.nodes)]
             ELSE [nodes |-> <<>>, err |-> FALSE]
       IN [nodes |-> one.nodes \o rest.nodes, err |-> one.err \/ rest.err]

\* all submodules a (sub)module includes, directly or not, each once
RECURSIVE IncClosure(_, _, _)
IncClosure(PP, todo, acc) ==
  IF todo = <<>> THEN acc
  ELSE LET sm == Head(todo) IN
       IF sm \in ToSet(acc) \/ sm \notin DOMAIN PP THEN IncClosure(PP, Tail(todo), acc)
       ELSE IncClosure(PP, Tail(todo) \o PP[sm].includes, Append(acc, sm))
RECURSIVE InstAll(_, _)
InstAll(PP, ms) == IF ms = <<>> THEN [nodes |-> <<>>, err |-> FALSE]
                   ELSE LET a == Inst(PP, PP[Head(ms)].body, << [mod |-> Head(ms), kids |-> PP[Head(ms)].body] >>)
                            b == InstAll(PP, Tail(ms))
                        IN [nodes |-> a.nodes \o b.nodes, err |-> a.err \/ b.err]
\* a module's tree: its own body and the bodies of all included submodules, as if written there
ModuleTree(PP, m) ==
  LET r == InstAll(PP, <<m>> \o IncClosure(PP, PP[m].includes, <<>>)) IN
  [root |-> [name |-> m, kind |-> "module", cfg |-> "unset", mand |-> "unset", dflt |-> <<>>, la |-> NoLA, units |-> "",
             type |-> "", iff |-> <<>>, ns |-> "", implicit |-> FALSE, kids |-> r.nodes],
   err |-> r.err \/ Dup(r.nodes)]
MissingInclude(PP, m) == \E k \in 1..Len(PP[m].includes) : PP[m].includes[k] \notin DOMAIN PP
MissingImport(PP, m) == \E p \in DOMAIN PP[m].imports : PP[m].imports[p] \notin DOMAIN PP

Augments(PP, m) == SelectSeq(PP[m].body, LAMBDA s : s.kw = "augment")
Deviations(PP, m) == SelectSeq(PP[m].body, LAMBDA s : s.kw = "deviation")

\* ---- paths ----------------------------------------------------------------------
\* the module a path's first prefix denotes, seen from the (sub)module `from`
PathModule(PP, from, steps) ==
  LET p == steps[1].p IN
  IF p = "" \/ p = OwnPrefix(PP, from) THEN Owner(PP, from)
  ELSE IF p \in DOMAIN PP[from].imports THEN PP[from].imports[p] ELSE "?"
KidNamed(n, name) == LET c == {k \in 1..Len(n.kids) : n.kids[k].name = name} IN
                     IF c = {} THEN 0 ELSE CHOOSE k \in c : TRUE
\* an rpc or action has an input and an output whether written or not
Implicit(name) == [name |-> name, kind |-> name, cfg |-> "unset", mand |-> "unset", dflt |-> <<>>, la |-> NoLA, units |-> "",
                   type |-> "", iff |-> <<>>, ns |-> "", implicit |-> FALSE, kids |-> <<>>]
WithIO(n) == IF n.kind \in {"rpc", "action"}
             THEN [n EXCEPT !.kids = @ \o (IF KidNamed(n, "input") = 0 THEN << Implicit("input") >> ELSE <<>>)
                                       \o (IF KidNamed(n, "output") = 0 THEN << Implicit("output") >> ELSE <<>>)]
             ELSE n
RECURSIVE FindIn(_, _)
FindIn(n, names) ==     \* [found, node]
  IF names = <<>> THEN [found |-> TRUE, node |-> n]
  ELSE LET w == WithIO(n)
           k == KidNamed(w, Head(names)) IN
       IF k = 0 THEN [found |-> FALSE] ELSE FindIn(w.kids[k], Tail(names))
StepNames(steps) == [k \in 1..Len(steps) |-> steps[k].n]

\* the tree n with the node at path `names` replaced by new
RECURSIVE Replace(_, _, _)
Replace(n, names, new) ==
  IF names = <<>> THEN new
  ELSE LET w == WithIO(n)
           k == KidNamed(w, Head(names)) IN
       [w EXCEPT !.kids[k] = Replace(w.kids[k], Tail(names), new)]

\* ---- applying one module's pending augments once, in written order ------------------
Stamp(nodes, ns) == [k \in 1..Len(nodes) |-> [nodes[k] EXCEPT !.ns = ns]]
RECURSIVE AddKids(_, _)
AddKids(t, new) ==     \* [node, clash]: new kids merged into t; a name already present is an error and is not added
  IF new = <<>> THEN [node |-> t, clash |-> FALSE]
  ELSE LET r == AddKids(IF KidNamed(t, Head(new).name) = 0 THEN [t EXCEPT !.kids = Append(@, Head(new))] ELSE t, Tail(new))
       IN [r EXCEPT !.clash = @ \/ KidNamed(t, Head(new).name) # 0]
RECURSIVE ApplyAll(_, _, _, _)
ApplyAll(PP, m, augs, T) ==      \* [trees, left, done, err]
  IF augs = <<>> THEN [trees |-> T, left |-> <<>>, done |-> 0, err |-> FALSE]
  ELSE LET a == Head(augs)
           tm == PathModule(PP, m, a.arg)
           names == StepNames(a.arg)
           f == IF tm \in DOMAIN T THEN FindIn(T[tm], names) ELSE [found |-> FALSE]
       IN IF ~f.found THEN
               LET r == ApplyAll(PP, m, Tail(augs), T) IN [r EXCEPT !.left = <<a>> \o r.left]
          ELSE LET inst == Inst(PP, a.kids, << [mod |-> m, kids |-> a.kids], [mod |-> m, kids |-> PP[m].body] >>)
                   barren == f.node.kind \notin Augmentable
                   merged == AddKids(f.node, Stamp(Constrain(inst.nodes, a.kids), NSOf(PP, m)))
                   newT == IF barren THEN T ELSE [T EXCEPT ![tm] = Replace(T[tm], names, merged.node)]
                   r == ApplyAll(PP, m, Tail(augs), newT)
               IN [r EXCEPT !.done = r.done + 1,
                            !.err = r.err \/ inst.err \/ Dup(inst.nodes) \/ barren \/ merged.clash]

\* ---- implicit cases ---------------------------------------------------------------
RECURSIVE FixChoice(_)
FixChoice(n) ==
  LET fixed == [k \in 1..Len(n.kids) |-> FixChoice(n.kids[k])]
      \* the implicit case has no statements of its own (no config); it is placed by the text that placed its member
      wrap(c) == [name |-> c.name, kind |-> "case", cfg |-> "unset", mand |-> "unset", dflt |-> <<>>, la |-> NoLA, units |-> "",
                  type |-> "", iff |-> <<>>, ns |-> c.ns, implicit |-> TRUE, kids |-> <<c>>]
  IN [n EXCEPT !.kids = IF n.kind = "choice"
                        THEN [k \in 1..Len(fixed) |-> IF fixed[k].kind = "case" THEN fixed[k] ELSE wrap(fixed[k])]
                        ELSE fixed]

\* ---- deviations (RFC 7950 7.20.3, as narrowed by the property statement; DESIGN.md D.1) ---
IsListy(n) == n.kind \in {"list", "leaf-list"}
\* one deviate statement applied to node n: [node, err, gone]
Deviate1(n, d) ==
  LET k == d.kids
      base == [node |-> n, err |-> FALSE, gone |-> FALSE]
      setIf(r, kw, fld) == IF Has(k, kw) THEN [r EXCEPT !.node = [@ EXCEPT ![fld] = Attr(k, kw, "")]] ELSE r
  IN
  IF d.arg = "not-supported" THEN [base EXCEPT !.gone = TRUE]
  ELSE IF d.arg \in {"add", "replace"} THEN
    LET r1 == setIf(base, "config", "cfg")
        r2 == IF ~Has(k, "default") THEN r1
              ELSE IF d.arg = "replace" THEN [r1 EXCEPT !.node.dflt = Args(k, "default")]
              ELSE IF n.kind = "leaf-list" THEN [r1 EXCEPT !.node.dflt = @ \o Args(k, "default")]
              ELSE IF n.dflt # <<>> THEN [r1 EXCEPT !.err = TRUE]
              ELSE [r1 EXCEPT !.node.dflt = Args(k, "default")]
        r3 == setIf(r2, "mandatory", "mand")
        r4 == IF ~Has(k, "min-elements") THEN r3
              ELSE IF ~IsListy(n) THEN [r3 EXCEPT !.err = TRUE]
              ELSE [r3 EXCEPT !.node.la.min = Attr(k, "min-elements", 0)]
        r5 == IF ~Has(k, "max-elements") THEN r4
              ELSE IF ~IsListy(n) THEN [r4 EXCEPT !.err = TRUE]
              ELSE [r4 EXCEPT !.node.la.max = Attr(k, "max-elements", UNB)]
        r6 == setIf(r5, "units", "units")
        r7 == IF ~Has(k, "type") THEN r6
              ELSE IF Attr(k, "type", "") = "nosuch" THEN [r6 EXCEPT !.err = TRUE]     \* unresolvable replacement type
              ELSE [r6 EXCEPT !.node.type = Attr(k, "type", "")]
    IN r7
  ELSE IF d.arg = "delete" THEN
    LET r1 == IF Has(k, "config") THEN [base EXCEPT !.node.cfg = "unset"] ELSE base
        r2 == IF ~Has(k, "default") THEN r1
              ELSE IF n.dflt = <<>> \/ n.dflt[1] # Attr(k, "default", "") THEN [r1 EXCEPT !.err = TRUE]
              ELSE [r1 EXCEPT !.node.dflt = <<>>]
        r3 == IF Has(k, "mandatory") THEN [r2 EXCEPT !.node.mand = "unset"] ELSE r2
        r4 == IF ~Has(k, "min-elements") THEN r3
              ELSE IF ~IsListy(n) \/ n.la.min # Attr(k, "min-elements", 0) THEN [r3 EXCEPT !.err = TRUE]
              ELSE [r3 EXCEPT !.node.la.min = 0]
        r5 == IF ~Has(k, "max-elements") THEN r4
              ELSE IF ~IsListy(n) \/ n.la.max # Attr(k, "max-elements", UNB) THEN [r4 EXCEPT !.err = TRUE]
              ELSE [r4 EXCEPT !.node.la.max = UNB]
    IN r5
  ELSE [base EXCEPT !.err = TRUE]        \* unknown deviate kind
RECURSIVE DeviateSeq(_, _)
DeviateSeq(n, ds) ==     \* the deviate statements of one deviation, in written order
  IF ds = <<>> THEN [node |-> n, err |-> FALSE, gone |-> FALSE]
  ELSE LET a == Deviate1(n, Head(ds)) IN
       IF a.gone THEN a
       ELSE LET b == DeviateSeq(a.node, Tail(ds)) IN [b EXCEPT !.err = a.err \/ b.err]
RemoveKid(n, name) == [n EXCEPT !.kids = SelectSeq(@, LAMBDA c : c.name # name)]
RECURSIVE ApplyDevs(_, _, _, _)
ApplyDevs(PP, m, devs, T) ==     \* [trees, err]; deviations of module m in written order
  IF devs = <<>> THEN [trees |-> T, err |-> FALSE]
  ELSE LET d == Head(devs)
           tm == PathModule(PP, m, d.arg)
           names == StepNames(d.arg)
           f == IF tm \in DOMAIN T THEN FindIn(T[tm], names) ELSE [found |-> FALSE]
       IN IF ~f.found THEN LET r == ApplyDevs(PP, m, Tail(devs), T) IN [r EXCEPT !.err = TRUE]
          ELSE LET x == DeviateSeq(f.node, SelectSeq(d.kids, LAMBDA s : s.kw = "deviate"))
                   up == SubSeq(names, 1, Len(names) - 1)
                   newT == IF x.gone
                           THEN (IF prog.ignoreNS THEN T
                                 ELSE [T EXCEPT ![tm] = Replace(T[tm], up, RemoveKid(WithIO(FindIn(T[tm], up).node), names[Len(names)]))])
                           ELSE [T EXCEPT ![tm] = Replace(T[tm], names, x.node)]
                   r == ApplyDevs(PP, m, Tail(devs), newT)
               IN [r EXCEPT !.err = @ \/ x.err]

\* ---- the machine --------------------------------------------------------------------
Mods == {m \in DOMAIN P : P[m].kind = "module"}
All == DOMAIN P
BuildErr == \/ \E m \in Mods : ModuleTree(P, m).err
            \/ \E m \in All : MissingInclude(P, m) \/ MissingImport(P, m)
            \* a submodule's own text is instantiated too (errors in it count even when nobody includes it)
            \/ \E m \in All \ Mods : Inst(P, P[m].body, << [mod |-> m, kids |-> P[m].body] >>).err
Init == /\ prog = [mods |-> << >>, ignoreNS |-> FALSE]
        /\ trees = << >> /\ pending = << >> /\ work = <<>> /\ i = 0 /\ progress = 0 /\ devleft = {}
        /\ errs = FALSE /\ pc = "pick" /\ sincefix = 0 /\ nfix = 0 /\ naug = 0

Pick == /\ pc = "pick" /\ prog' \in Programs /\ pc' = "build"
        /\ UNCHANGED <<trees, pending, work, i, progress, devleft, errs, sincefix, nfix, naug>>

Build == /\ pc = "build"
         /\ LET built == [m \in Mods |-> ModuleTree(P, m)] IN
            /\ trees' = [m \in Mods |-> built[m].root]
            /\ errs' = BuildErr
            /\ pending' = [m \in All |-> Augments(P, m)]
            /\ pc' = IF errs' THEN "done" ELSE "order"
         /\ UNCHANGED <<prog, work, i, progress, devleft, sincefix, nfix, naug>>

Order == /\ pc = "order" /\ work' \in Perms(All) /\ i' = 1 /\ progress' = 0 /\ pc' = "aug"
         /\ UNCHANGED <<prog, trees, pending, devleft, errs, sincefix, nfix, naug>>

AugStep == /\ pc = "aug" /\ i <= Len(work)
           /\ LET m == work[i]
                  r == ApplyAll(P, m, pending[m], trees) IN
              /\ trees' = r.trees /\ pending' = [pending EXCEPT ![m] = r.left]
              /\ progress' = progress + r.done /\ naug' = naug + r.done /\ sincefix' = sincefix + r.done
              /\ errs' = (errs \/ r.err)
              /\ IF r.left = <<>>
                 THEN work' = [k \in 1..(Len(work) - 1) |-> IF k = i THEN work[Len(work)] ELSE work[k]] /\ i' = i
                 ELSE work' = work /\ i' = i + 1
           /\ UNCHANGED <<prog, devleft, pc, nfix>>

RoundEnd == /\ pc = "aug" /\ i > Len(work)
            /\ IF progress = 0 \/ work = <<>> THEN pc' = "fix" /\ UNCHANGED <<i, progress>>
               ELSE pc' = "aug" /\ i' = 1 /\ progress' = 0
            /\ UNCHANGED <<prog, trees, pending, work, devleft, errs, sincefix, nfix, naug>>

Fix == /\ pc = "fix"
       /\ trees' = [m \in Mods |-> FixChoice(trees[m])]
       /\ IF work = <<>> \/ (nfix > 0 /\ sincefix = 0)
          THEN /\ errs' = (errs \/ \E m \in All : pending[m] # <<>>)      \* a target that never appeared
               /\ devleft' = {m \in All : Deviations(P, m) # <<>>}
               /\ pc' = "dev"
               /\ UNCHANGED <<i, progress, sincefix, nfix>>
          ELSE \* augments are left: with the implicit cases in place their targets may exist now
               /\ pc' = "aug" /\ i' = 1 /\ progress' = 0 /\ sincefix' = 0 /\ nfix' = nfix + 1
               /\ UNCHANGED <<errs, devleft>>
       /\ UNCHANGED <<prog, pending, work, naug>>

DevStep == /\ pc = "dev" /\ devleft # {}
           /\ \E m \in devleft :
                LET r == ApplyDevs(P, m, Deviations(P, m), trees) IN
                /\ trees' = r.trees /\ errs' = (errs \/ r.err) /\ devleft' = devleft \ {m}
           /\ UNCHANGED <<prog, pending, work, i, progress, pc, sincefix, nfix, naug>>
DevEnd == /\ pc = "dev" /\ devleft = {} /\ pc' = "done"
          /\ UNCHANGED <<prog, trees, pending, work, i, progress, devleft, errs, sincefix, nfix, naug>>

Next == Pick \/ Build \/ Order \/ AugStep \/ RoundEnd \/ Fix \/ DevStep \/ DevEnd
Spec == Init /\ [][Next]_vars /\ WF_vars(Next)

\* ---- queries: what the harness observes per path ---------------------------------------
\* opcfg: an explicit config statement applies to the node from INSIDE an rpc, action or notification; RFC 7950 ignores
\* config there and the statement of C12 leaves such nodes out (the harness does not compare ReadOnly for them)
RECURSIVE FlatOp(_, _, _, _, _, _, _)
FlatOf(n, path, ns, ro, top) == FlatOp(n, path, ns, ro, top, FALSE, FALSE)
FlatOp(n, path, ns, ro, top, inop, opc) ==
  LET myns == IF n.ns # "" THEN n.ns ELSE ns
      myro == IF n.kind = "output" THEN TRUE ELSE IF n.cfg # "unset" THEN n.cfg = "false" ELSE ro
      myop == inop \/ n.kind \in {"rpc", "action", "notification"}
      myopc == opc \/ (myop /\ n.cfg # "unset")
      p == IF top THEN <<>> ELSE Append(path, n.name)
      me == IF top \/ (n.kind \in {"input", "output"} /\ n.kids = <<>>) THEN {}     \* unwritten, untouched input / output
            ELSE {[p |-> p, kind |-> n.kind, ro |-> myro, ns |-> myns, implicit |-> n.implicit,
                   cfg |-> n.cfg, mand |-> n.mand, dflt |-> n.dflt, la |-> n.la, units |-> n.units, type |-> n.type, iff |-> n.iff,
                   \* the default values in force: the node's own, else (for a leaf that is not mandatory / a leaf-list
                   \* without min-elements) the default of its type; "tdd" is the one typedef with a default: "tdv-" and the
                   \* name of the module that defines it, and the tdd meant is the one of the module whose text holds the statement
                   \* the identity an identityref's base statement names is looked up where the statement is written too
                   idb |-> IF n.type = "identityref" THEN n.tmod ELSE "",
                   dv |-> IF n.dflt # <<>> THEN n.dflt
                          ELSE IF n.type = "tdd" /\ ((n.kind = "leaf" /\ n.mand # "true") \/ (n.kind = "leaf-list" /\ n.la.min = 0))
                               THEN <<"tdv-" \o n.tmod>> ELSE <<>>,
                   opcfg |-> myopc]}
  IN me \cup UNION {FlatOp(n.kids[k], p, myns, myro, FALSE, myop, myopc) : k \in 1..Len(n.kids)}
Flat(m) == FlatOf(trees[m], <<>>, P[m].ns, FALSE, TRUE)

\* ---- Canon: the outcome under one fixed order, as a pure function ---------------------------
RECURSIVE Round(_, _, _, _), Loop(_, _, _)
Round(PP, ms, T, pend) ==
  IF ms = <<>> THEN [T |-> T, pend |-> pend, done |-> 0, err |-> FALSE]
  ELSE LET r == ApplyAll(PP, Head(ms), pend[Head(ms)], T)
           rest == Round(PP, Tail(ms), r.trees, [pend EXCEPT ![Head(ms)] = r.left])
       IN [rest EXCEPT !.done = rest.done + r.done, !.err = rest.err \/ r.err]
Loop(PP, ms, st) == LET r == Round(PP, ms, st.T, st.pend)
                        st2 == [T |-> r.T, pend |-> r.pend, err |-> st.err \/ r.err]
                    IN IF r.done = 0 THEN st2 ELSE Loop(PP, ms, st2)
RECURSIVE DevAll(_, _, _)
DevAll(PP, ms, st) == IF ms = <<>> THEN st
                      ELSE LET r == ApplyDevs(PP, Head(ms), Deviations(PP, Head(ms)), st.T) IN
                           DevAll(PP, Tail(ms), [T |-> r.trees, err |-> st.err \/ r.err])
CanonSeq == SelectSeq(CanonOrder, LAMBDA m : m \in All)
CanonBuilt == [m \in Mods |-> ModuleTree(P, m)]
CanonLoop == Loop(P, CanonSeq, [T |-> [m \in Mods |-> CanonBuilt[m].root], pend |-> [m \in All |-> Augments(P, m)], err |-> FALSE])
\* rounds until no progress, implicit cases, and again while something is pending and the last pass applied something
RECURSIVE Phases(_, _, _)
Phases(PP, st, first) ==
  LET r == Loop(PP, CanonSeq, st)
      progressed == r.pend # st.pend
      fixed == [r EXCEPT !.T = [m \in DOMAIN r.T |-> FixChoice(r.T[m])]]
  IN IF ~first /\ ~progressed THEN fixed
     ELSE IF \A m \in DOMAIN fixed.pend : fixed.pend[m] = <<>> THEN fixed
     ELSE Phases(PP, fixed, FALSE)
CanonPhases == Phases(P, [T |-> [m \in Mods |-> CanonBuilt[m].root], pend |-> [m \in All |-> Augments(P, m)], err |-> FALSE], TRUE)
CanonFixed == [T |-> CanonPhases.T,
               err |-> CanonPhases.err \/ \E m \in All : CanonPhases.pend[m] # <<>>]
CanonFinal == DevAll(P, CanonSeq, CanonFixed)
\* an augment was applied only after the implicit cases had been inserted: its target path goes through an implicit
\* case, which the statement of C07 leaves out of its claim (C04 and C17 still speak about the resulting trees)
LatePhaseUsed == \E m \in All : CanonLoop.pend[m] # CanonPhases.pend[m]
CanonFlat(m) == FlatOf(CanonFinal.T[m], <<>>, P[m].ns, FALSE, TRUE)

\* ---- declarative properties ---------------------------------------------------------------
Done == pc = "done"
Clean == Done /\ ~errs
\* C05 / C07: the outcome is the same whatever order the loops take (trees compared when no error)
Confluence == Done =>
                 /\ errs = (BuildErr \/ CanonFinal.err)
                 /\ ~errs => \A m \in Mods : Flat(m) = CanonFlat(m)
\* C07: every augment is applied exactly once
TotalAugs == LET S == {<<m, k>> : m \in All, k \in 1..8} IN Cardinality({x \in S : x[2] <= Len(Augments(P, x[1]))})
ExactlyOnce == Clean => naug = TotalAugs /\ \A m \in All : pending[m] = <<>>
NeverTwice == naug <= TotalAugs
AppliedStays == [][pc = "aug" => \A m \in DOMAIN pending : Len(pending'[m]) <= Len(pending[m])]_vars
\* C04: in a clean outcome every child of a choice is a case, names among siblings are unique
RECURSIVE Proper(_)
Proper(n) == /\ ~Dup(n.kids)
             /\ n.kind = "choice" => \A k \in 1..Len(n.kids) : n.kids[k].kind = "case"
             /\ n.kind \in Childless => n.kids = <<>>
             /\ \A k \in 1..Len(n.kids) : Proper(n.kids[k])
ProperTrees == Clean => \A m \in Mods : Proper(trees[m])
\* C07: a grafted node and its descendants carry the augmenting module's namespace:
\* checked through Flat on the harness side and by Attribution in MCSchema's spaces
\* C08: a node that no deviation targets is what the same modules yield without the deviations
DevTargetPaths == {<<PathModule(P, m, d.arg), StepNames(d.arg)>> : m \in All, d \in UNION {ToSet(Deviations(P, mm)) : mm \in All}}
Targeted(m, p) == \E t \in DevTargetPaths : t[1] = m /\ Len(t[2]) <= Len(p) /\ SubSeq(p, 1, Len(t[2])) = t[2]
Frame == Clean => \A m \in Mods :
            LET before == FlatOf(CanonFixed.T[m], <<>>, P[m].ns, FALSE, TRUE) IN
            {f \in Flat(m) : ~Targeted(m, f.p)} = {f \in before : ~Targeted(m, f.p)}
Termination == <>(pc = "done")

Export == pc # "done" \/ PrintT(<<"CASE", ToJson([prog |-> prog, errs |-> errs, late |-> LatePhaseUsed,
                                       flat |-> [m \in Mods |-> IF errs THEN {} ELSE Flat(m)]])>>)
View == <<prog, trees, pending, work, i, progress, devleft, errs, pc, sincefix, nfix>>
=============================================================================
