CONSTANTS
  Programs = {}
  CanonOrder <- MCOrderB
  Focus = {"errs"}
INIT TInit
NEXT TNext
POSTCONDITION Consumed
CHECK_DEADLOCK FALSE
