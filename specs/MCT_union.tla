---- MODULE MCT_union ----
EXTENDS MCTypes
Space == SUnion(0)
====
