---- MODULE MCEnums ----
EXTENDS Enums
\* enumeration: clusters at the minimum (-1000), zero and the maximum (1000)
\* 5000 / -5000: literals of 64-bit magnitude and beyond (the harness spells them so that a wrapped reading lands in range)
MCVals == {0-5000, 0-1001, 0-1000, 0-999, 0-2, 0-1, 0, 1, 999, 1000, 1001, 5000, ODD}
MCMin == 0-1000
\* bits: the minimum is zero; 500 stands for 2^31-1 (the enumeration maximum, an inner point for bits)
MCBitVals == {0-5000, 0-1, 0, 1, 499, 500, 999, 1000, 1001, 5000, ODD}
====
