------------------------------ MODULE Indent ------------------------------
(***************************************************************************)
(* C20. The indenting writer of pkg/indent: an io.Writer that puts a       *)
(* prefix at the start of every line and forwards to an underlying writer  *)
(* which may stop short.  Operational definition shaped like iw.Write (one *)
(* action per Write call, the `partial' flag is lineOpen), declarative     *)
(* definition IndentOf = the one-shot indent.String / indent.Bytes.        *)
(***************************************************************************)
EXTENDS Naturals, Sequences, TLC, Json, SequencesExt, FiniteSets
CONSTANTS Chars,      \* alphabet of caller bytes
          PrefixSet,  \* set of prefixes (sequences of bytes)
          MaxText,    \* bound on the total number of caller bytes
          MaxChunk,   \* bound on the length of one Write argument
          MaxCalls,   \* bound on the number of Write calls
          NL,         \* the line feed byte
          INF         \* "the underlying writer never stops short"

VARIABLES prefix,   \* the writer's prefix
          fed,      \* chunks handed to Write so far
          sink,     \* bytes the underlying writer has accepted
          lineOpen, \* the current output line already carries its prefix
          budget,   \* bytes the underlying writer will still accept, or INF
          ret,      \* [n, err] of the last Write
          failed,   \* a Write has failed (later calls are outside the claim)
          hist      \* history variable: one record per Write (exported)
vars == <<prefix, fed, sink, lineOpen, budget, ret, failed, hist>>

\* ---------- declarative one-shot definition (indent.String / Bytes) --------
\* concatenation of pieces[lo..hi], halving (long texts: depth log n)
RECURSIVE CatRange(_, _, _)
CatRange(pieces, lo, hi) ==
  IF lo > hi THEN <<>>
  ELSE IF lo = hi THEN pieces[lo]
  ELSE LET m == (lo + hi) \div 2 IN CatRange(pieces, lo, m) \o CatRange(pieces, m + 1, hi)
\* does position i of s start a line?  (atStart: the first byte does)
StartsLine(s, i, atStart) == IF i = 1 THEN atStart ELSE s[i - 1] = NL
IndentOf(p, s, atStart) ==      \* atStart: the next byte starts a line
  CatRange([i \in 1..Len(s) |-> (IF StartsLine(s, i, atStart) THEN p ELSE <<>>) \o <<s[i]>>], 1, Len(s))

Concat(ss) == FoldLeft(LAMBDA a, b : a \o b, <<>>, ss)

\* ---------- operational definition, shaped like iw.Write -------------------
\* what one Write hands to the underlying writer: <<byte, fromCaller>> pairs
Joined(p, c, open) ==
  LET pre == [i \in 1..Len(p) |-> <<p[i], FALSE>>]
  IN CatRange([i \in 1..Len(c) |-> (IF StartsLine(c, i, ~open) THEN pre ELSE <<>>) \o << <<c[i], TRUE>> >>], 1, Len(c))

CallerCount(j, k) == Cardinality({i \in 1..k : j[i][2]})
Bytes(j, k) == [i \in 1..k |-> j[i][1]]

Init ==
  /\ prefix \in PrefixSet
  /\ fed = <<>> /\ sink = <<>> /\ lineOpen = FALSE
  /\ budget \in (0..(MaxText * 3)) \cup {INF}
  /\ ret = [n |-> 0, err |-> FALSE] /\ failed = FALSE /\ hist = <<>>

Write(c) ==
  /\ ~failed
  /\ Len(Concat(fed)) + Len(c) <= MaxText /\ Len(fed) < MaxCalls
  /\ LET j == Joined(prefix, c, lineOpen)
         k == IF budget = INF \/ Len(j) <= budget THEN Len(j) ELSE budget
         short == k < Len(j)
     IN /\ sink' = sink \o Bytes(j, k)
        /\ ret' = IF short THEN [n |-> CallerCount(j, k), err |-> TRUE]
                           ELSE [n |-> Len(c), err |-> FALSE]
        /\ failed' = short
        /\ budget' = IF budget = INF THEN INF ELSE budget - k
        /\ lineOpen' = IF c = <<>> THEN lineOpen ELSE c[Len(c)] # NL
        /\ fed' = Append(fed, c)
        /\ hist' = Append(hist, [chunk |-> c, n |-> ret'.n, err |-> ret'.err, sink |-> sink'])
  /\ UNCHANGED prefix

Chunks == UNION {[1..n -> Chars] : n \in 0..MaxChunk}
Next == \E c \in Chunks : Write(c)
Spec == Init /\ [][Next]_vars

\* ---------- properties ----------------------------------------------------
TypeOK == /\ ret.n \in Nat /\ ret.err \in BOOLEAN /\ lineOpen \in BOOLEAN
          /\ budget \in Nat
\* any division into Write calls renders what the one-shot function renders
ChunkIndependent == ~failed => sink = IndentOf(prefix, Concat(fed), TRUE)
\* the count is the number of caller bytes that reached the underlying writer
\* the one-shot rendering with every byte marked "written by the caller?"
IndentMarked(p, s, atStart) ==
  LET pre == [i \in 1..Len(p) |-> FALSE]
  IN CatRange([i \in 1..Len(s) |-> (IF StartsLine(s, i, atStart) THEN pre ELSE <<>>) \o <<TRUE>>], 1, Len(s))
Truthful ==
  /\ fed # <<>> => ret.n <= Len(fed[Len(fed)])
  /\ ~failed /\ fed # <<>> => ret.n = Len(fed[Len(fed)]) /\ ~ret.err
  /\ failed => LET all == IndentOf(prefix, Concat(fed), TRUE)
                   marks == IndentMarked(prefix, Concat(fed), TRUE)
                   before == Len(Concat(SubSeq(fed, 1, Len(fed) - 1)))
                   reached == Cardinality({i \in 1..Len(sink) : marks[i]})
               IN /\ Len(sink) < Len(all)
                  /\ sink = SubSeq(all, 1, Len(sink))
                  /\ ret.err
                  /\ ret.n + before = reached
\* delivered bytes are only ever appended
Monotone == [][IsPrefix(sink, sink')]_vars
Export == hist = <<>> \/ PrintT(<<"CASE", ToJson([prefix |-> prefix,
             budget0 |-> IF budget = INF THEN 0 - 1 ELSE budget + Len(sink), hist |-> hist])>>)
View == <<prefix, fed, sink, lineOpen, budget, ret, failed>>
=============================================================================
