---- MODULE RangesTrace ----
(* Direction B for C10: recorded restrictions resolved by the real library  *)
(* along random 64-bit derivation chains (rank-compressed bounds).          *)
EXTENDS Ranges, IOUtils
Trace == ndJsonDeserialize(IOEnv.TRACE)
VARIABLES l, tid, rejected
Ev == Trace[l]
TInit == l = 1 /\ tid = 0 /\ rejected = FALSE /\ parent = <<>> /\ steps = <<>> /\ toks = <<>> /\ mode = "parts"
Reset == /\ l <= Len(Trace) /\ Ev.ev = "reset" /\ tid' = Ev.tid /\ rejected' = FALSE /\ l' = l + 1 /\ UNCHANGED vars
Rs(ps) == [k \in 1..Len(ps) |-> [lo |-> ps[k][1], hi |-> ps[k][2]]]
RestrictOK(e) ==
  LET par == Rs(e.parent)  ps == Rs(e.parts)  x == Restrict(par, ps)
      invalid == ~Ascending(Resolved(ps, par))
  IN IF e.ok THEN x.ok /\ Rs(e.result) = x.r /\ Normal(Rs(e.result))
                  /\ Den(Rs(e.result)) = Den(Resolved(ps, par)) /\ Den(Rs(e.result)) \subseteq Den(par)
     ELSE ~x.ok \/ invalid
TStep == /\ l <= Len(Trace) /\ Ev.ev = "restrict" /\ ~rejected /\ RestrictOK(Ev)
         /\ parent' = Rs(Ev.result) /\ steps' = Append(steps, Rs(Ev.parts))
         /\ l' = l + 1 /\ UNCHANGED <<tid, rejected, toks, mode>>
TReject == /\ l <= Len(Trace) /\ Ev.ev = "restrict" /\ ~rejected /\ ~RestrictOK(Ev)
           /\ PrintT(<<"REJECT", tid, l>>)
           /\ rejected' = TRUE /\ l' = l + 1 /\ UNCHANGED <<tid, vars>>
TSkip == /\ l <= Len(Trace) /\ Ev.ev # "reset" /\ rejected /\ l' = l + 1 /\ UNCHANGED <<tid, rejected, vars>>
TNext == Reset \/ TStep \/ TReject \/ TSkip
Consumed == TLCGet("stats").diameter - 1 = Len(Trace)
====
