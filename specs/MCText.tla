---- MODULE MCText ----
EXTENDS Text
cLF == "\n"
cTAB == "\t"
cCR == "\r"
cDQ == "\""
cSQ == "'"
cBS == "\\"
One(S) == {<<c>> : c \in S}
\* every character class of the reader, "E" stands for a multi-byte character (the harness renders it as U+00E9)
RawAlphabet == One({"a", "E", " ", cTAB, cLF, cCR, ";", "{", "}", cDQ, cSQ, "+", cBS, "/", "*", "n"})
cPattern == <<"p","a","t","t","e","r","n">>
cNoPrefix == <<>>
\* inside a double-quoted argument
DqAlphabet == One({"x", " ", cTAB, cLF, cBS, "n", cDQ, "+", cSQ, ";"})
cDqPrefix1 == <<"a", " ">>
cDqPrefix2 == <<cTAB, "a", " ", " ">>
\* inside a double-quoted string, at the start of its first continuation line
cDqPrefix3 == <<"a", " ", cDQ, cLF>>
cPatPrefix == <<"p","a","t","t","e","r","n"," ">>
\* inside the block of a pattern statement: the next argument is not a pattern argument
cPatBlkPrefix == <<"p","a","t","t","e","r","n"," ",cDQ,"x",cDQ," ","{","k"," ">>
cPatBlkSuffix == <<";","}">>
\* a very long line: a statement, then blanks up to column 4095
cWidePrefix == <<"a", ";">> \o [i \in 1..4093 |-> " "]
cCmtPrefix == <<"a", " ", "/", "*", "*", "/", " ">>
cSqPrefix == <<"a", " ", cSQ, "q", cSQ, "+">>
\* a tab INSIDE a block comment / a single-quoted piece, then on the same line the opening quote of a multi-line string whose
\* first continuation line already has eight blanks: the column of that quote counts the tab as reaching the next multiple of 8
cCmtTabPrefix == <<"a", " ", "/", "*", cTAB, "*", "/", " ", cDQ, "x", cLF>> \o [i \in 1..8 |-> " "]
cSqTabPrefix == <<"a", " ", cSQ, cTAB, "q", cSQ, "+", cDQ, "x", cLF>> \o [i \in 1..8 |-> " "]
cDqClose == <<cDQ, ";">>
\* seven blocks open and a keyword: what follows is a run of up to ten ";", "}" and blanks (closing runs longer than any
\* look-ahead or token buffer the reader may have)
cRunPrefix == <<"a","{","a","{","a","{","a","{","a","{","a","{","a","{","a">>
RunAlphabet == One({";", "}", " "})
\* a yang-version statement earlier in the text changes nothing about the strings that follow (escapes included)
cYvPrefix == <<"y","a","n","g","-","v","e","r","s","i","o","n"," ","1",";","a"," ">>
cMbPrefix == <<"E", " ", "/", "*", "E", cLF, "*", "/", cSQ, "E", cLF, cSQ, cTAB>>
\* token level: whole lexemes
TokAlphabet == { <<"k">>, <<"a","r","g">>, <<cDQ,"s"," ",cLF," "," ","t",cDQ>>, <<cSQ,"q",cSQ>>, <<"+">>, <<cDQ,"+",cDQ>>, <<";">>, <<"{">>, <<"}">>,
                 <<"/","/","c",cLF>>, <<"/","*","c","*","/">>, <<"/","*",cLF,"E",cLF,"*","/">>, <<cSQ,cLF,cLF,"q",cSQ>>, <<" ">>, <<cLF>>, <<cCR,cLF>> }
====
