CONSTANTS
  Programs = {}
  CanonOrder <- MCOrderB
  Focus = {"struct", "attrs", "errs"}
INIT TInit
NEXT TNext
POSTCONDITION Consumed
CHECK_DEADLOCK FALSE
