---- MODULE MCI_thorough ----
EXTENDS MCIdent
Space == SIdent(2, 2)
====
