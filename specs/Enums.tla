------------------------------- MODULE Enums -------------------------------
(***************************************************************************)
(* C14. Value / position assignment in enumeration and bits types          *)
(* (RFC 7950 9.6.4.2, 9.7.4.2) as a machine: one action per member, shaped *)
(* like EnumType.Set / SetNext.  Values live in a small integer domain     *)
(* made of clusters around the type bounds and zero; the algorithm uses    *)
(* only <, = and +1, so the harness embeds the clusters at the real int32  *)
(* / uint32 bounds (order and adjacency preserved).                        *)
(***************************************************************************)
EXTENDS Integers, Sequences, FiniteSets, TLC, Json
CONSTANTS Names,   \* member names offered
          Vals,    \* explicit values offered (may lie outside [MinV, MaxV])
          MinV, MaxV,
          Unique,  \* TRUE: enumeration (values unique); FALSE: bits
          MaxLen,  \* members per type
          NONE     \* sentinel: no explicit value / nothing assigned yet

VARIABLES ops,      \* the member statements so far: [name, val] (val = NONE: implicit)
          members,  \* accepted members in order: [name, val]
          hi,       \* highest value assigned so far, NONE before the first member
          oks       \* per statement: accepted?
vars == <<ops, members, hi, oks>>

HasName(ms, n) == \E k \in 1..Len(ms) : ms[k].name = n
HasVal(ms, v)  == \E k \in 1..Len(ms) : ms[k].val = v

\* may member n get value v, given the accepted members ms?
Assignable(ms, n, v, mn, mx, uniq) ==
  ~HasName(ms, n) /\ ~(uniq /\ HasVal(ms, v)) /\ v >= mn /\ v <= mx

\* the value an implicit member gets; NONE when there is none (previous = maximum)
Auto(h, mx) == IF h = NONE THEN 0 ELSE IF h = mx THEN NONE ELSE h + 1

\* one member statement: returns [ok, val]
\* ODD: an explicit value whose spelling is not an integer-value of RFC 7950 (hexadecimal, a leading plus, ...)
ODD == 777777
Step(ms, h, n, x, mn, mx, uniq) ==
  LET v == IF x # NONE THEN x ELSE Auto(h, mx)
  IN IF v = NONE \/ x = ODD THEN [ok |-> FALSE, val |-> NONE]
     ELSE [ok |-> Assignable(ms, n, v, mn, mx, uniq), val |-> v]

Op(n, x) ==
  /\ Len(ops) < MaxLen
  /\ LET s == Step(members, hi, n, x, MinV, MaxV, Unique)
     IN /\ ops' = Append(ops, [name |-> n, val |-> x])
        /\ oks' = Append(oks, s.ok)
        /\ members' = IF s.ok THEN Append(members, [name |-> n, val |-> s.val]) ELSE members
        /\ hi' = IF s.ok /\ (hi = NONE \/ s.val > hi) THEN s.val ELSE hi

Init == ops = <<>> /\ members = <<>> /\ hi = NONE /\ oks = <<>>
Next == \E n \in Names, x \in Vals \cup {NONE} : Op(n, x)
Spec == Init /\ [][Next]_vars

\* ---- the property, declaratively ------------------------------------------
NamesUnique == \A a, b \in 1..Len(members) : a # b => members[a].name # members[b].name
ValsUnique  == Unique => \A a, b \in 1..Len(members) : a # b => members[a].val # members[b].val
InRange     == \A k \in 1..Len(members) : members[k].val >= MinV /\ members[k].val <= MaxV
HiIsMax     == /\ hi = NONE <=> members = <<>>
               /\ members # <<>> => (\A k \in 1..Len(members) : members[k].val <= hi) /\ HasVal(members, hi)
\* the two views of an enumeration are mutually inverse
Inverse  == Unique => Cardinality({members[k].val : k \in 1..Len(members)}) = Len(members)
\* RFC rule as an action property: an accepted implicit member is 0 when it is
\* the first and otherwise one more than the highest earlier value
ImplicitRule ==
  [][ (Len(ops') = Len(ops) + 1 /\ ops'[Len(ops')].val = NONE /\ oks'[Len(oks')])
        => LET v == members'[Len(members')].val IN
           IF members = <<>> THEN v = 0
           ELSE /\ \A k \in 1..Len(members) : members[k].val < v
                /\ HasVal(members, v - 1) ]_vars
\* an accepted explicit member gets exactly its value
ExplicitRule ==
  [][ (Len(ops') = Len(ops) + 1 /\ ops'[Len(ops')].val # NONE /\ oks'[Len(oks')])
        => members'[Len(members')].val = ops'[Len(ops')].val ]_vars
Export == ops = <<>> \/ PrintT(<<"CASE", ToJson([ops |-> ops, oks |-> oks, members |-> members, uniq |-> Unique])>>)
=============================================================================
