---- MODULE MCS_aug_dev ----
EXTENDS MCSchema
Space == SAugDev(0)
====
