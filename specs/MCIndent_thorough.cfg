CONSTANTS
  Chars = {"a", "N"}
  NL = "N"
  PrefixSet <- MCPfx2
  MaxText = 6
  MaxChunk = 3
  MaxCalls = 5
  INF = 99
INIT Init
NEXT Next
VIEW View
INVARIANTS TypeOK ChunkIndependent Truthful Export
PROPERTIES Monotone
CHECK_DEADLOCK FALSE
