---- MODULE ErrorsTrace ----
(* C05, error lists: the errors Process returned for a program, as          *)
(* [file rank, line, column, text id] (file rank 0 = no position), must be  *)
(* ordered by file, line and column among the positioned ones and contain   *)
(* no text twice.                                                           *)
EXTENDS Naturals, Sequences, FiniteSets, TLC, Json, IOUtils
Trace == ndJsonDeserialize(IOEnv.TRACE)
VARIABLES l, tid, rejected
Ev == Trace[l]
TInit == l = 1 /\ tid = 0 /\ rejected = FALSE
Reset == /\ l <= Len(Trace) /\ Ev.ev = "reset" /\ tid' = Ev.tid /\ rejected' = FALSE /\ l' = l + 1
Pos(s) == SelectSeq(s, LAMBDA e : e[1] # 0)
LeqPos(a, b) == a[1] < b[1] \/ (a[1] = b[1] /\ (a[2] < b[2] \/ (a[2] = b[2] /\ a[3] <= b[3])))
Ordered(s) == \A i \in 1..(Len(s) - 1) : LeqPos(s[i], s[i+1])
NoDup(s) == \A i, j \in 1..Len(s) : i # j => s[i][4] # s[j][4]
ErrorsOK(e) == Ordered(Pos(e.list)) /\ NoDup(e.list)
TStep == /\ l <= Len(Trace) /\ Ev.ev = "errors" /\ ~rejected /\ ErrorsOK(Ev) /\ l' = l + 1 /\ UNCHANGED <<tid, rejected>>
TReject == /\ l <= Len(Trace) /\ Ev.ev = "errors" /\ ~rejected /\ ~ErrorsOK(Ev)
           /\ PrintT(<<"REJECT", tid, l>>) /\ rejected' = TRUE /\ l' = l + 1 /\ UNCHANGED tid
TSkip == /\ l <= Len(Trace) /\ Ev.ev # "reset" /\ rejected /\ l' = l + 1 /\ UNCHANGED <<tid, rejected>>
TNext == Reset \/ TStep \/ TReject \/ TSkip
Consumed == TLCGet("stats").diameter - 1 = Len(Trace)
====
