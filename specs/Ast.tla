-------------------------------- MODULE Ast --------------------------------
(***************************************************************************)
(* C03 (and the blame part of C16).  Building the typed syntax tree from a *)
(* statement: the builder's loop, one substatement per step, driven by the *)
(* grammar table Gram (parent node type -> single-valued / multi-valued    *)
(* child keywords, mandatory children, children mandatory for module resp. *)
(* submodule), which is frozen in Grammar.tla (extracted once from the     *)
(* struct tags of the pinned tree and cross-read against RFC 7950).        *)
(***************************************************************************)
EXTENDS Naturals, Sequences, FiniteSets, TLC, Json, Grammar
CONSTANTS MaxKids,  \* substatements per node
          Extra     \* keywords offered everywhere in addition to the legal children

VARIABLES ptype,   \* node type being built ("Top": a top-level statement)
          pkw,     \* its keyword where it matters (module / submodule / top-level keyword)
          kids,    \* its substatements' keywords, in source order
          seen,    \* keywords met so far (single- and multi-valued)
          fields,  \* keyword -> sequence of indices of the substatements filed there
          exts,    \* indices filed in the extensions list
          fault    \* first substatement the builder refuses: [kind, idx] or NoFault
vars == <<ptype, pkw, kids, seen, fields, exts, fault>>

NoFault == [kind |-> "none", idx |-> 0]
G == Gram[ptype]
\* prefixed keywords: two fixed ones and, for every mandatory substatement r of the node, "ex:r" (an
\* extension that merely shares the local name of a mandatory substatement does not stand in for it)
ReqAll == UNION {Gram[t].req \cup Gram[t].reqModule \cup Gram[t].reqSubmodule : t \in GTypes}
Prefixed(k) == k \in {"ex:t", "ex:Name"} \cup {"ex:" \o r : r \in ReqAll}
Meta(k) == k \in {"Name", "Statement", "Parent", "Ext"}
Legal == G.one \cup G.many
TopKw == {"module", "submodule", "container", "leaf", "zz", "ex:t", "Name"}

\* ---- operational: the builder consumes one more substatement ------------------
Consume(k) ==
  LET i == Len(kids) + 1 IN
  /\ kids' = Append(kids, k)
  /\ IF fault # NoFault THEN UNCHANGED <<seen, fields, exts, fault>>     \* the build has already failed
     ELSE IF k \in G.one /\ k \in seen THEN
          fault' = [kind |-> "dup", idx |-> i] /\ UNCHANGED <<seen, fields, exts>>
     ELSE IF k \in Legal THEN
          /\ seen' = seen \cup {k}
          /\ fields' = [f \in DOMAIN fields \cup {k} |-> IF f = k THEN (IF k \in DOMAIN fields THEN Append(fields[k], i) ELSE <<i>>) ELSE fields[f]]
          /\ UNCHANGED <<exts, fault>>
     ELSE IF Prefixed(k) THEN
          exts' = Append(exts, i) /\ UNCHANGED <<seen, fields, fault>>
     ELSE fault' = [kind |-> "unknown", idx |-> i] /\ UNCHANGED <<seen, fields, exts>>
  /\ UNCHANGED <<ptype, pkw>>

Required == G.req \cup (IF pkw = "module" THEN G.reqModule ELSE IF pkw = "submodule" THEN G.reqSubmodule ELSE {})
Foreign  == IF pkw = "module" THEN G.reqSubmodule ELSE IF pkw = "submodule" THEN G.reqModule ELSE {}
Missing == Required \ seen
ForeignSeen == Foreign \cap seen

\* the outcome of closing the node now
Built ==
  IF ptype = "Top" THEN [ok |-> pkw \in {"module", "submodule"}]
  ELSE IF fault # NoFault \/ Missing # {} \/ ForeignSeen # {} THEN [ok |-> FALSE]
  ELSE [ok |-> TRUE, fields |-> fields, exts |-> exts]

\* faults by kind, for the single-fault cases of C16: the builder's first complaint
NFaults == Cardinality({i \in 1..Len(kids) : ~(kids[i] \in Legal) /\ ~Prefixed(kids[i])})
           + Cardinality({i \in 1..Len(kids) : kids[i] \in G.one /\ \E j \in 1..(i-1) : kids[j] = kids[i]})
           + Cardinality(Missing) + Cardinality(ForeignSeen)
Blame ==   \* which statement a positioned error must name: [what, idx]; idx 0 = the node's own statement
  IF fault.kind = "unknown" THEN [what |-> "unknown", idx |-> fault.idx]
  ELSE IF fault.kind = "dup" THEN [what |-> "dup", idx |-> fault.idx]
  ELSE IF Missing # {} THEN [what |-> "missing", idx |-> 0]
  ELSE IF ForeignSeen # {} THEN [what |-> "foreign", idx |-> CHOOSE i \in 1..Len(kids) : kids[i] \in ForeignSeen /\ \A j \in 1..(i-1) : kids[j] \notin ForeignSeen]
  ELSE [what |-> "none", idx |-> 0]

Init == /\ ptype \in (GTypes \ {"Element"}) \cup {"Top"} /\ kids = <<>>
        /\ pkw \in (IF ptype = "Module" THEN {"module", "submodule"} ELSE IF ptype = "Top" THEN TopKw ELSE {"-"})
        /\ seen = {} /\ fields = <<>> /\ exts = <<>> /\ fault = NoFault
Next == /\ ptype # "Top" /\ Len(kids) < MaxKids
        /\ \E k \in Legal \cup Extra \cup {"ex:" \o r : r \in Required \cup Foreign} : Consume(k)
Spec == Init /\ [][Next]_vars

\* ---- declarative: one-to-one or rejected ----------------------------------------
Idx(f) == {f[i] : i \in 1..Len(f)}
OneToOne == (ptype # "Top" /\ Built.ok) =>
   /\ (UNION {Idx(fields[k]) : k \in DOMAIN fields}) \cup Idx(exts) = 1..Len(kids)          \* nothing dropped
   /\ \A k1, k2 \in DOMAIN fields : k1 # k2 => Idx(fields[k1]) \cap Idx(fields[k2]) = {}     \* nothing duplicated
   /\ \A k \in DOMAIN fields : /\ \A i \in Idx(fields[k]) : kids[i] = k                      \* under its own keyword
                               /\ k \in G.one => Len(fields[k]) = 1
                               /\ \A a, b \in 1..Len(fields[k]) : a < b => fields[k][a] < fields[k][b]  \* source order
   /\ \A i \in Idx(exts) : Prefixed(kids[i])
   /\ \A a, b \in 1..Len(exts) : a < b => exts[a] < exts[b]
Rejects == ptype # "Top" =>
   /\ (\E i \in 1..Len(kids) : kids[i] \notin Legal /\ ~Prefixed(kids[i])) => ~Built.ok       \* unknown in context
   /\ (\E i, j \in 1..Len(kids) : i < j /\ kids[i] = kids[j] /\ kids[i] \in G.one) => ~Built.ok \* second single-valued
   /\ ~(Required \subseteq {kids[i] : i \in 1..Len(kids)}) => ~Built.ok                       \* mandatory absent
   /\ Built.ok <=> NFaults = 0
Export == PrintT(<<"CASE", ToJson([ptype |-> ptype, pkw |-> pkw, kids |-> kids, built |-> Built,
                                   nfaults |-> IF ptype = "Top" THEN 0 ELSE NFaults,
                                   blame |-> IF ptype = "Top" THEN [what |-> "none", idx |-> 0] ELSE Blame])>>)
=============================================================================
