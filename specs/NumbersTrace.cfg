CONSTANTS
  Mags = {}
  FDs = {}
  Signs = {}
  U64MAX <- MCU64
  I64MAX <- MCI64
  I64MINABS <- MCI64M
INIT TInit
NEXT TNext
POSTCONDITION Consumed
CHECK_DEADLOCK FALSE
