CONSTANTS
  Descs <- MCDescs
  MaxLoads = 4
  ImportRevs <- MCImportRevs
  Layouts <- MCLayoutsQuick
  Wanted <- MCWanted
INIT Init
NEXT Next
INVARIANTS OrderIndependent LatestWins DupRejected Chooser Export
CHECK_DEADLOCK FALSE
