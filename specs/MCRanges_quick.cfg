CONSTANTS
  Points <- MCPoints
  ChainPoints <- MCChainPoints
  Parents <- MCParents
  MaxParts = 2
  MaxChain = 1
  Toks <- MCToks
  MaxToks = 4
INIT Init
NEXT Next
INVARIANTS Sound Narrowing SyntaxOK Export
CHECK_DEADLOCK FALSE
