------------------------------ MODULE Ranges ------------------------------
(***************************************************************************)
(* C10. range / length restrictions.  Operational definition shaped like  *)
(* parseChildRanges: tokens -> parts -> resolve min/max against the parent *)
(* -> reject descending bounds -> sort -> coalesce (max + 1 quantum) ->    *)
(* containment merge walk; applied along a derivation chain.  Declarative  *)
(* definition: Den(r) = the set of values.  The domain is a small integer  *)
(* interval made of clusters; the algorithm uses only <, = and +1, so the  *)
(* harness embeds the clusters at the bounds of every concrete type (int8  *)
(* .. uint64, length, decimal64 at every fraction-digits).                 *)
(***************************************************************************)
EXTENDS Integers, Sequences, FiniteSets, TLC, Json
CONSTANTS Points,    \* model integers that may appear as bounds
          Parents,   \* parent sets: sequences of [lo, hi], sorted, disjoint, non-adjacent
          MaxParts,  \* parts per restriction
          MaxChain,  \* restrictions along a derivation chain
          ChainPoints, \* points offered to restrictions after the first
          Toks, MaxToks \* syntax layer: token alphabet and length (MaxToks = 0: off)

VARIABLES parent,  \* the set being restricted (the built-in range or an earlier restriction)
          steps,   \* the chain: a sequence of restrictions, each a sequence of parts
          toks,    \* syntax layer: the restriction as a token sequence
          mode     \* "parts" | "toks"
vars == <<parent, steps, toks, mode>>

MINSYM == 0 - 999999
MAXSYM == 999999
Sym(P) == P \cup {MINSYM, MAXSYM}
Part(P) == [lo : Sym(P), hi : Sym(P)]

\* ---- syntax: part ("|" part)*, part = bound | bound ".." bound ---------------
\* tokens (all integers, TLC cannot mix strings and integers in a set): a point, MINSYM, MAXSYM, DOTS, BAR, JUNK
DOTS == 2000001
BAR == 2000002
JUNK == 2000003
IsBound(t) == t < 2000000
RECURSIVE ParseToks(_, _)
ParseToks(ts, acc) ==     \* [ok, parts]
  IF ts = <<>> \/ ~IsBound(ts[1]) THEN [ok |-> FALSE, parts |-> <<>>]
  ELSE IF Len(ts) >= 3 /\ ts[2] = DOTS /\ IsBound(ts[3]) THEN
         LET p == [lo |-> ts[1], hi |-> ts[3]] IN
         IF Len(ts) = 3 THEN [ok |-> TRUE, parts |-> Append(acc, p)]
         ELSE IF ts[4] = BAR THEN ParseToks(SubSeq(ts, 5, Len(ts)), Append(acc, p))
         ELSE [ok |-> FALSE, parts |-> <<>>]
  ELSE LET p == [lo |-> ts[1], hi |-> ts[1]] IN
       IF Len(ts) = 1 THEN [ok |-> TRUE, parts |-> Append(acc, p)]
       ELSE IF ts[2] = BAR THEN ParseToks(SubSeq(ts, 3, Len(ts)), Append(acc, p))
       ELSE [ok |-> FALSE, parts |-> <<>>]

\* ---- operational, shaped like parseChildRanges ---------------------------------
Resolve(v, par) == IF v = MINSYM THEN par[1].lo ELSE IF v = MAXSYM THEN par[Len(par)].hi ELSE v
Resolved(ps, par) == [k \in 1..Len(ps) |-> [lo |-> Resolve(ps[k].lo, par), hi |-> Resolve(ps[k].hi, par)]]
OutOfOrder(rs) == \E k \in 1..Len(rs) : rs[k].hi < rs[k].lo

LessR(a, b) == a.lo < b.lo \/ (a.lo = b.lo /\ a.hi < b.hi)
RECURSIVE Insert(_, _), SortR(_)
Insert(x, s) == IF s = <<>> THEN <<x>> ELSE IF LessR(x, Head(s)) THEN <<x>> \o s ELSE <<Head(s)>> \o Insert(x, Tail(s))
SortR(s) == IF s = <<>> THEN <<>> ELSE Insert(Head(s), SortR(Tail(s)))

RECURSIVE Coalesce(_, _)
Coalesce(acc, s) ==
  IF s = <<>> THEN acc
  ELSE LET last == acc[Len(acc)]  r == Head(s) IN
       IF last.hi + 1 < r.lo THEN Coalesce(Append(acc, r), Tail(s))
       ELSE IF last.hi < r.hi THEN Coalesce([acc EXCEPT ![Len(acc)].hi = r.hi], Tail(s))
       ELSE Coalesce(acc, Tail(s))
Coal(s) == IF s = <<>> THEN <<>> ELSE Coalesce(<<Head(s)>>, Tail(s))

RECURSIVE Walk(_, _, _)
Walk(par, ri, s) ==   \* Contains: merge walk over two normal sets
  IF s = <<>> THEN TRUE
  ELSE IF ri > Len(par) THEN FALSE
  ELSE IF par[ri].hi < Head(s).lo THEN Walk(par, ri + 1, s)
  ELSE IF Head(s).lo < par[ri].lo \/ par[ri].hi < Head(s).hi THEN FALSE
  ELSE Walk(par, ri, Tail(s))

Restrict(par, ps) ==
  LET rs == Resolved(ps, par) IN
  IF OutOfOrder(rs) THEN [ok |-> FALSE, r |-> <<>>]
  ELSE LET c == Coal(SortR(rs)) IN
       IF Walk(par, 1, c) THEN [ok |-> TRUE, r |-> c] ELSE [ok |-> FALSE, r |-> <<>>]

\* results along the chain: a sequence of [ok, r]; a failed step ends the chain
RECURSIVE Chain(_, _)
Chain(par, ss) ==
  IF ss = <<>> THEN <<>>
  ELSE LET x == Restrict(par, Head(ss)) IN
       IF x.ok THEN <<x>> \o Chain(x.r, Tail(ss)) ELSE <<x>>

\* ---- declarative -----------------------------------------------------------------
Den(r) == UNION {r[k].lo .. r[k].hi : k \in 1..Len(r)}
Normal(r) == \A k \in 1..Len(r) : r[k].lo <= r[k].hi /\ (k < Len(r) => r[k].hi + 1 < r[k+1].lo)
\* written parts that RFC 7950 9.2.4 forbids (not ascending or not disjoint): the
\* statement requires a right result when they are accepted, not their acceptance
Ascending(rs) == \A k \in 1..(Len(rs) - 1) : rs[k].hi < rs[k+1].lo

Init == parent \in Parents /\ steps = <<>> /\ toks = <<>> /\ mode \in (IF MaxToks > 0 THEN {"parts", "toks"} ELSE {"parts"})
StepPoints == IF Len(steps) <= 1 THEN Points ELSE ChainPoints
Grow == /\ mode = "parts" /\ steps # <<>> /\ Len(steps[Len(steps)]) < MaxParts
        /\ \E p \in Part(StepPoints) : steps' = [steps EXCEPT ![Len(steps)] = Append(@, p)]
        /\ UNCHANGED <<parent, toks, mode>>
NewStep == /\ mode = "parts" /\ Len(steps) < MaxChain
           /\ (steps # <<>> => LET c == Chain(parent, steps) IN Len(c) = Len(steps) /\ c[Len(c)].ok)
           /\ \E p \in Part(IF steps = <<>> THEN Points ELSE ChainPoints) : steps' = Append(steps, <<p>>)
           /\ UNCHANGED <<parent, toks, mode>>
GrowToks == /\ mode = "toks" /\ Len(toks) < MaxToks
            /\ \E t \in Toks : toks' = Append(toks, t)
            /\ UNCHANGED <<parent, steps, mode>>
Next == Grow \/ NewStep \/ GrowToks
Spec == Init /\ [][Next]_vars

Results == Chain(parent, steps)
ParentOf(k) == IF k = 1 THEN parent ELSE Results[k-1].r
Sound == \A k \in 1..Len(Results) :
   LET par == ParentOf(k)  w == Resolved(steps[k], par)  res == Results[k] IN
   /\ res.ok => /\ Normal(res.r) /\ Den(res.r) = Den(w) /\ Den(res.r) \subseteq Den(par)
   /\ ~res.ok <=> (OutOfOrder(w) \/ ~(Den(w) \subseteq Den(par)))
\* restrictions only ever narrow, all along the chain
Narrowing == \A k \in 1..Len(Results) : Results[k].ok => Den(Results[k].r) \subseteq Den(parent)
\* the syntax layer accepts exactly part ("|" part)*
SyntaxOK == mode = "toks" /\ toks # <<>> =>
   LET p == ParseToks(toks, <<>>) IN
   p.ok <=> /\ \A i \in 1..Len(toks) : (IsBound(toks[i]) <=> (i = 1 \/ ~IsBound(toks[i-1])))
            /\ IsBound(toks[Len(toks)])
            /\ \A i \in 1..Len(toks) : toks[i] # JUNK
            /\ \A i \in 1..(Len(toks) - 2) : ~(toks[i] = DOTS /\ toks[i+2] = DOTS)
TokResult == LET p == ParseToks(toks, <<>>) IN
             IF p.ok THEN Restrict(parent, p.parts) ELSE [ok |-> FALSE, r |-> <<>>]
Export ==
  \/ (mode = "parts" /\ steps = <<>>) \/ (mode = "toks" /\ toks = <<>>)
  \/ IF mode = "parts"
     THEN PrintT(<<"CASE", ToJson([mode |-> mode, parent |-> parent, steps |-> steps, results |-> Results,
                    invalid |-> \E k \in 1..Len(Results) : ~Ascending(Resolved(steps[k], ParentOf(k)))])>>)
     ELSE PrintT(<<"CASE", ToJson([mode |-> mode, parent |-> parent, toks |-> toks, syntax |-> ParseToks(toks, <<>>).ok,
                    results |-> <<TokResult>>,
                    invalid |-> LET p == ParseToks(toks, <<>>) IN p.ok /\ ~Ascending(Resolved(p.parts, parent))])>>)
=============================================================================
