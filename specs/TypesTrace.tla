---- MODULE TypesTrace ----
(* Direction B for C09: random schemas (2-3 modules with submodules, nested scopes of  *)
(* every kind that may hold typedefs, same-named typedefs shadowing one another,       *)
(* chains across imports, unions whose members are references, enumerations, bits,     *)
(* decimal64, leafref) resolved by the real library.  One event per program: the scope *)
(* structure, the typedefs and the uses as written, and what Process / Entry.Type      *)
(* said.  Judged by TypesG.tla.  Non-blocking.                                         *)
EXTENDS TypesG, TLC, Json, IOUtils
Trace == ndJsonDeserialize(IOEnv.TRACE)
VARIABLES l, tid
tvars == <<l, tid>>
Ev == Trace[l]
TInit == l = 1 /\ tid = 0
Reset == /\ l <= Len(Trace) /\ Ev.ev = "reset" /\ tid' = Ev.tid /\ l' = l + 1
TdSet(e) == GRng(e.tds)
UseOf(u) == [scope |-> u.scope, ref |-> u.ref, pat |-> u.pat, own |-> u.own]
\* reason codes: 1 error presence, 2 kind, 3 units, 4 default, 5 patterns, 6 fraction-digits, 7 enum / bit names,
\*               8 path, 9 union members, 10 the binding is not the nearest scope (specification sanity)
\* a typedef may state the empty string as its units: stated (the nearest statement wins), and what is observed is ""
Shown(x) == IF x = "EMPTY" THEN "" ELSE x
ShownM(ms) == {[kind |-> m.kind, units |-> Shown(m.units)] : m \in ms}
LeafReason(K, tds, u) ==
  LET r == GResolve(K, tds, UseOf(u))  o == u.obs IN
  IF ~GLexical(K, tds, u.scope, u.ref) THEN 10
  ELSE IF o.kind # r.kind THEN 2
  ELSE IF o.units # Shown(r.units) THEN 3
  ELSE IF o.dflt # r.dflt \/ o.hasdflt # (r.dflt # "") \/ o.dvals # (IF r.dflt = "" THEN <<>> ELSE <<r.dflt>>) THEN 4
  ELSE IF r.kind = "string" /\ o.pats # r.pats THEN 5
  ELSE IF o.fd # r.fd THEN 6
  ELSE IF GRng(o.enums) # r.enums \/ GRng(o.bits) # r.bits THEN 7
  ELSE IF o.path # r.path THEN 8
  ELSE IF GRng(o.members) # ShownM(GRng(r.members)) THEN 9      \* as sets: equal members are listed once, and Types.tla pins the order
  ELSE 0
Reason(e) ==
  LET K == [scopes |-> e.scopes, roots |-> e.roots]
      tds == TdSet(e)
      bad == (\E t \in tds : GTypedefErr(K, tds, t)) \/ (\E j \in 1..Len(e.uses) : GResolve(K, tds, UseOf(e.uses[j])).err)
  IN IF e.err # bad THEN 1
     ELSE IF e.err THEN 0
     ELSE LET rs == {LeafReason(K, tds, e.uses[j]) : j \in 1..Len(e.uses)} \ {0} IN
          IF rs = {} THEN 0 ELSE CHOOSE x \in rs : \A y \in rs : x <= y
TJudge == /\ l <= Len(Trace) /\ Ev.ev = "types" /\ Reason(Ev) = 0
          /\ l' = l + 1 /\ UNCHANGED tid
TReject == /\ l <= Len(Trace) /\ Ev.ev = "types" /\ Reason(Ev) # 0
           /\ PrintT(<<"REJECT", tid, l, Reason(Ev)>>)
           /\ l' = l + 1 /\ UNCHANGED tid
TNext == Reset \/ TJudge \/ TReject
Consumed == TLCGet("stats").diameter - 1 = Len(Trace)
====
