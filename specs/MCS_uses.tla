---- MODULE MCS_uses ----
EXTENDS MCSchema
Space == SUses(0)
====
