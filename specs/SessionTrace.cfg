CONSTANTS
  Good <- AllGood
  Bad <- MCBad
  MaxOps = 1000
  WithGet = TRUE
INIT TInit
NEXT TNext
INVARIANTS BatchEq Idempotent NamesUnique
POSTCONDITION Consumed
CHECK_DEADLOCK FALSE
