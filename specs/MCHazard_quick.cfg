CONSTANTS
  Dims <- MCDims
  DimSeq <- MCDimSeq
  MaxHazards = 2
INIT Init
NEXT Next
INVARIANTS TypeOK Export
CHECK_DEADLOCK FALSE
