CONSTANTS
  LF <- cLF
  TAB <- cTAB
  CR <- cCR
  DQ <- cDQ
  SQ <- cSQ
  BS <- cBS
  Alphabet <- DqAlphabet
  MaxLen = 5
  Prefix <- cSqTabPrefix
  Suffix <- cDqClose
  PatternKw <- cPattern
INIT Init
NEXT Next
INVARIANTS PosOK ColIsCharCount ShadowAgrees RejectEmpty StmtPosInText Export
CHECK_DEADLOCK FALSE
