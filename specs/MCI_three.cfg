CONSTANTS
  Programs <- Space
INIT Init
NEXT Next
INVARIANTS ErrRight Exactly Once NotSelf Transitive FixedOrder ReachAgrees Export
CHECK_DEADLOCK FALSE
