------------------------------ MODULE Registry ------------------------------
(***************************************************************************)
(* C13.  The module set as a keyed registry, and the choice of a file for  *)
(* a module that is not loaded yet.                                        *)
(*  Load(d)   a module text with name d.name and revision list d.revs is   *)
(*            offered; it is filed under name@latest and the bare name     *)
(*            denotes the newest of that name REGARDLESS of arrival order; *)
(*            the same (name, latest revision) twice is rejected.          *)
(*  queries   bare name, import with / without revision-date.              *)
(*  FindFile  directories in order (the current directory first); in the   *)
(*            first one holding a candidate: name.yang, else the           *)
(*            name@YYYY-MM-DD.yang with the latest date.                   *)
(* Revisions are small integers (0 = no revision statement), order = date. *)
(***************************************************************************)
EXTENDS Integers, Sequences, FiniteSets, TLC, Json
CONSTANTS Descs,      \* descriptors offered: [name, revs (set of revisions), tag]
          MaxLoads,
          ImportRevs, \* revisions an import of "a" may ask for (0 = none)
          Layouts,    \* FindFile: set of layouts; a layout is a sequence of directories (sets of files), the first is "."
          Wanted      \* FindFile: names asked for: [mod, rev]

VARIABLES mode,    \* "reg" | "fs"
          loads,   \* descriptors offered so far, in order
          oks,     \* per load: accepted?
          reg,     \* accepted descriptors
          layout, want
vars == <<mode, loads, oks, reg, layout, want>>

Max(S) == CHOOSE x \in S : \A y \in S : y <= x
Latest(d) == IF d.revs = {} THEN 0 ELSE Max(d.revs)
Dup(d) == \E x \in reg : x.name = d.name /\ Latest(x) = Latest(d)

Init == /\ mode \in {"reg", "fs"} /\ loads = <<>> /\ oks = <<>> /\ reg = {}
        /\ layout = <<>> /\ want = [mod |-> "", rev |-> 0]
Load(d) == /\ mode = "reg" /\ Len(loads) < MaxLoads
           /\ loads' = Append(loads, d)
           /\ oks' = Append(oks, ~Dup(d))
           /\ reg' = IF Dup(d) THEN reg ELSE reg \cup {d}
           /\ UNCHANGED <<mode, layout, want>>
PickFS == /\ mode = "fs" /\ layout = <<>> /\ layout' \in Layouts /\ want' \in Wanted
          /\ UNCHANGED <<mode, loads, oks, reg>>
Next == (\E d \in Descs : Load(d)) \/ PickFS

\* ---- queries ---------------------------------------------------------------------
Named(n) == {x \in reg : x.name = n}
Newest(n) == CHOOSE x \in Named(n) : \A y \in Named(n) : Latest(y) <= Latest(x)
Bare(n) == IF Named(n) = {} THEN "none" ELSE Newest(n).tag
Exact(n, r) == IF \E x \in Named(n) : Latest(x) = r THEN (CHOOSE x \in Named(n) : Latest(x) = r).tag ELSE Bare(n)
ImportTarget(r) == IF r = 0 THEN Bare("a") ELSE Exact("a", r)

\* ---- properties of the registry ---------------------------------------------------------
\* acceptance and every query depend only on the SET of texts offered, not on their order
Offered == {loads[k] : k \in 1..Len(loads)}
OrderIndependent == mode = "reg" =>
   /\ \A d \in Offered : \E x \in reg : x.name = d.name /\ Latest(x) = Latest(d)
   /\ \A n \in {"a", "b"} : Named(n) # {} => Latest(Newest(n)) = Max({Latest(d) : d \in {x \in Offered : x.name = n}})
LatestWins == mode = "reg" => \A n \in {"a", "b"} : Named(n) # {} => \A y \in Named(n) : Latest(y) <= Latest(Newest(n))
DupRejected == mode = "reg" => \A j, k \in 1..Len(loads) :
                  (j < k /\ loads[j].name = loads[k].name /\ Latest(loads[j]) = Latest(loads[k]) /\ oks[j]) => ~oks[k]

\* ---- FindFile -------------------------------------------------------------------------------
\* a file is [mod, rev, ext]: rev 0 = "mod.ext", rev 1..8 = "mod@<date>.ext", rev 9 = "mod@bad.ext" (not a date)
Exactly(w) == [mod |-> IF w.rev = 0 THEN w.mod ELSE w.mod, rev |-> w.rev, ext |-> "yang"]
Dated(dir, w) == IF w.rev # 0 THEN {} ELSE {f \in dir : f.mod = w.mod /\ f.ext = "yang" /\ f.rev \in 1..8}
ChooseIn(dir, w) == IF Exactly(w) \in dir THEN Exactly(w)
                    ELSE IF Dated(dir, w) # {} THEN (CHOOSE f \in Dated(dir, w) : \A g \in Dated(dir, w) : g.rev <= f.rev)
                    ELSE [mod |-> "", rev |-> 0, ext |-> ""]
NoFile == [mod |-> "", rev |-> 0, ext |-> ""]
RECURSIVE ChooseFile(_, _, _)
ChooseFile(L, k, w) == IF k > Len(L) THEN [dir |-> 0, file |-> NoFile]
                       ELSE IF ChooseIn(L[k], w) # NoFile THEN [dir |-> k, file |-> ChooseIn(L[k], w)]
                       ELSE ChooseFile(L, k + 1, w)
Chosen == ChooseFile(layout, 1, want)
\* declaratively: the first directory holding a candidate; exact else latest date; never another module's file
Chooser == (mode = "fs" /\ layout # <<>>) =>
   LET c == Chosen IN
   /\ c.dir # 0 => /\ c.file \in layout[c.dir] /\ c.file.mod = want.mod /\ c.file.ext = "yang" /\ c.file.rev # 9
                   /\ \A j \in 1..(c.dir - 1) : \A f \in layout[j] : ~(f.mod = want.mod /\ f.ext = "yang" /\ (f.rev = want.rev \/ (want.rev = 0 /\ f.rev \in 1..8)))
                   /\ (c.file.rev # want.rev) => (Exactly(want) \notin layout[c.dir] /\ \A f \in Dated(layout[c.dir], want) : f.rev <= c.file.rev)
   /\ c.dir = 0 => \A j \in 1..Len(layout) : \A f \in layout[j] : ~(f.mod = want.mod /\ f.ext = "yang" /\ (f.rev = want.rev \/ (want.rev = 0 /\ f.rev \in 1..8)))

Export ==
  \/ (mode = "reg" /\ loads = <<>>) \/ (mode = "fs" /\ layout = <<>>)
  \/ IF mode = "reg"
     THEN PrintT(<<"CASE", ToJson([mode |-> mode, loads |-> loads, oks |-> oks,
                          bare |-> [n \in {"a", "b"} |-> Bare(n)],
                          imports |-> [r \in ImportRevs |-> ImportTarget(r)]])>>)
     ELSE PrintT(<<"CASE", ToJson([mode |-> mode, layout |-> layout, want |-> want, chosen |-> Chosen])>>)
=============================================================================
