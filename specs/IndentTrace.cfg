CONSTANTS
  Chars = {"a"}
  NL <- MCNL
  PrefixSet = {}
  MaxText = 0
  MaxChunk = 0
  MaxCalls = 0
  INF = 1000000
INIT TInit
NEXT TNext
INVARIANT TChunkIndependent
POSTCONDITION Consumed
CHECK_DEADLOCK FALSE
