---- MODULE MCS_dev3 ----
EXTENDS MCSchema
Space == SDev3(0)
====
