CONSTANTS
  Points <- MCFarPoints
  ChainPoints <- MCChainPoints
  Parents <- MCParentsFar
  MaxParts = 2
  MaxChain = 1
  Toks <- MCToks
  MaxToks = 0
INIT Init
NEXT Next
INVARIANTS Sound Narrowing Export
CHECK_DEADLOCK FALSE
