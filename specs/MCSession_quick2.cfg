CONSTANTS
  Good <- MCGood2
  Bad <- MCBad2
  MaxOps = 5
  WithGet = TRUE
INIT Init
NEXT Next
INVARIANTS BatchEq Idempotent NamesUnique Export
PROPERTIES NoTrace
CHECK_DEADLOCK FALSE
