CONSTANTS
  Good <- MCGoodQuick
  Bad = {}
  MaxOps = 4
  WithGet = FALSE
INIT Init
NEXT Next
INVARIANTS BatchEq Idempotent NamesUnique Export
CHECK_DEADLOCK FALSE
