---- MODULE MCRegistry ----
EXTENDS Registry
D(n, revs, tag) == [name |-> n, revs |-> revs, tag |-> tag]
\* module a without revision, with revision 1, with revision 2, with revisions {1,2} (latest 2, a second text), b with / without
MCDescs == { D("a", {}, "a-norev"), D("a", {1}, "a-r1"), D("a", {2}, "a-r2"), D("a", {1, 2}, "a-r12"), D("b", {}, "b-norev"), D("b", {1}, "b-r1") }
MCImportRevs == {0, 1, 2}
F(m, r, e) == [mod |-> m, rev |-> r, ext |-> e]
CwdFiles == {F("n", 0, "yang"), F("n", 1, "yang"), F("nx", 0, "yang")}
Dir1Files == {F("n", 0, "yang"), F("n", 1, "yang"), F("n", 2, "yang"), F("nx", 0, "yang"), F("nx", 3, "yang"), F("n", 9, "yang"), F("n", 3, "txt")}
Dir1Quick == {F("n", 0, "yang"), F("n", 1, "yang"), F("n", 2, "yang"), F("nx", 3, "yang"), F("n", 9, "yang")}
Dir2Files == {F("n", 0, "yang"), F("n", 2, "yang"), F("n", 1, "yang")}
MCLayouts(d1) == { <<c, x, y>> : c \in SUBSET CwdFiles, x \in SUBSET d1, y \in SUBSET Dir2Files }
MCLayoutsQuick == MCLayouts(Dir1Quick)
MCWanted == { [mod |-> "n", rev |-> 0], [mod |-> "n", rev |-> 1] }
====
