CONSTANTS
  Programs <- Space
  CanonOrder <- MCOrder2
INIT Init
NEXT Next
VIEW View
INVARIANTS Confluence ExactlyOnce NeverTwice ProperTrees Frame Export
PROPERTIES AppliedStays
CHECK_DEADLOCK FALSE
