---- MODULE MCHazard ----
EXTENDS Hazard
MCDims ==
  [ td1 |-> {"self", "t2", "nosuch", "foreign-absent", "foreign-unknown-prefix"}, td2 |-> {"t1", "t3"}, td3 |-> {"t1"},
    gr1 |-> {"self", "g2", "nosuch", "foreign-absent"}, gr2 |-> {"g1", "g3"}, gr3 |-> {"g1"},
    id1 |-> {"self", "i2", "nosuch", "unknown-prefix"}, id2 |-> {"i1", "i3"}, id3 |-> {"i1"},
    incm |-> {"s1", "nosuch", "s1-s2", "itself"}, incs1 |-> {"self", "s2", "the-module"}, incs2 |-> {"s1"},
    belongs |-> {"other", "itself"}, belongs2 |-> {"absent-with-identity", "absent-with-typedef", "module-with-identity"}, imp |-> {"absent", "self", "a-submodule"},
    aug |-> {"container", "list", "leaf", "leaf-list", "choice", "case", "rpc", "input", "output", "notification", "anyxml", "absent", "unprefixed", "relative", "empty-path", "into-grouping-copy"},
    augpay |-> {"case", "uses-unknown", "empty", "same-name-twice", "nested-augment-target"},
    dev |-> {"leaf", "container", "absent", "rpc", "input", "case", "choice", "list", "leaf-list", "anyxml", "module-root"},
    devkind |-> {"add-default", "replace-type-nosuch", "delete-default", "bogus", "add-max-on-leaf", "replace-default-twice", "empty"},
    top |-> {"unknown-keyword", "container", "two-modules-same-name", "empty-text", "submodule-only", "submodule-with-identity", "only-comment", "leaf"},
    meta |-> {"Name", "Statement", "Parent", "Ext"},
    leafref |-> {"garbage", "up-out-of-tree", "self", "absent", "into-rpc", "no-path"},
    choice |-> {"default-missing", "duplicate-case", "case-named-like-leaf", "empty"},
    key |-> {"missing-leaf", "empty", "two-keys-one-missing"},
    union |-> {"empty", "of-cyclic-typedef", "nested-empty"},
    enumx |-> {"duplicate-name", "huge-value", "empty", "negative-then-implicit", "value-not-a-number"},
    range |-> {"bad-syntax", "descending", "on-string", "outside-parent", "min-only", "above-the-type", "below-the-type", "beyond-the-last-part", "in-a-gap",
                "dec-bad-syntax", "dec-too-precise", "dec-outside-parent", "dec-derived-outside", "length-descending"},
    rpcx |-> {"two-inputs", "input-uses-cycle", "action-in-rpc", "notification-in-rpc"},
    ext |-> {"unknown-prefix", "nested", "argument-only"},
    listx |-> {"max-zero", "min-garbage", "ordered-by-garbage", "unique-garbage"},
    cfgx |-> {"garbage", "on-rpc-input", "true-under-false"},
    rev |-> {"garbage-date", "two-same", "import-by-absent-revision"},
    idref |-> {"no-base", "base-absent", "base-unknown-prefix", "in-typedef-cycle"},
    frac |-> {"zero", "nineteen", "on-string", "missing", "restated-in-derived", "sixty-four-min-max", "two-five-five-max", "forty", "huge"} ]
MCDimSeq == <<"td1", "td2", "td3", "gr1", "gr2", "gr3", "id1", "id2", "id3", "incm", "incs1", "incs2", "belongs", "belongs2", "imp", "aug", "augpay",
              "dev", "devkind", "top", "meta", "leafref", "choice", "key", "union", "enumx", "range", "rpcx", "ext", "listx", "cfgx", "rev", "idref", "frac">>
ASSUME {MCDimSeq[k] : k \in 1..Len(MCDimSeq)} = DOMAIN MCDims
====
