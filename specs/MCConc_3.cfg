CONSTANTS
  Procs <- MCP3
  Programs <- MC3
INIT Init
NEXT Next
INVARIANTS Mutex NoDeadlock Export
CHECK_DEADLOCK FALSE
