------------------------------ MODULE Session ------------------------------
(***************************************************************************)
(* C18 (and the history layer of C01).  One module set used over time:     *)
(*   LoadGood(t)  a well-formed text; accepted unless one of the module    *)
(*                names it defines is already loaded                       *)
(*   LoadBad(t)   a text the loader rejects (syntax error, rejected        *)
(*                statement, unknown top-level keyword, a two-module text  *)
(*                whose second module is rejected); leaves no trace        *)
(*   Process      the result is Batch(goods): what a fresh set loaded with *)
(*                exactly the accepted texts, in the same relative order,  *)
(*                yields - whatever happened before on this set            *)
(*   Query        read access; changes nothing                             *)
(* Batch is left uninterpreted (the harness computes it with the real      *)
(* library on a fresh set); the specification says WHICH texts count and   *)
(* that nothing else does.                                                 *)
(***************************************************************************)
EXTENDS Naturals, Sequences, FiniteSets, TLC, Json
CONSTANTS Good,     \* good texts: [id, names (module / submodule names the text defines)]
          Bad,      \* bad text ids
          MaxOps

VARIABLES hist,     \* the operations so far: [op, text, ok]
          goods,    \* accepted texts, in order of acceptance
          expect    \* per Process / Query in hist: the sequence of texts whose batch result must be observed
vars == <<hist, goods, expect>>

Loaded == UNION {goods[k].names : k \in 1..Len(goods)}
Ids(s) == [k \in 1..Len(s) |-> s[k].id]
Init == hist = <<>> /\ goods = <<>> /\ expect = <<>>
LoadGood(t) == /\ Len(hist) < MaxOps
               /\ LET ok == t.names \cap Loaded = {} IN
                  /\ hist' = Append(hist, [op |-> "load", text |-> t.id, ok |-> ok])
                  /\ goods' = IF ok THEN Append(goods, t) ELSE goods
               /\ UNCHANGED expect
LoadBad(b) == /\ Len(hist) < MaxOps
              /\ hist' = Append(hist, [op |-> "load", text |-> b, ok |-> FALSE])
              /\ UNCHANGED <<goods, expect>>
Process == /\ Len(hist) < MaxOps
           /\ hist' = Append(hist, [op |-> "process", text |-> "", ok |-> TRUE])
           /\ expect' = Append(expect, Ids(goods))
           /\ UNCHANGED goods
Query == /\ Len(hist) < MaxOps /\ hist # <<>> /\ hist[Len(hist)].op = "process"
         /\ hist' = Append(hist, [op |-> "query", text |-> "", ok |-> TRUE])
         /\ UNCHANGED <<goods, expect>>
Next == (\E t \in Good : LoadGood(t)) \/ (\E b \in Bad : LoadBad(b)) \/ Process \/ Query
Spec == Init /\ [][Next]_vars

\* ---- properties -------------------------------------------------------------------
\* a failed load leaves no trace: nothing that determines later results changes
NoTrace == [][ (Len(hist') = Len(hist) + 1 /\ hist'[Len(hist')].op = "load" /\ ~hist'[Len(hist')].ok) => goods' = goods ]_vars
\* the result of every Process is determined by the accepted texts alone, and re-processing changes nothing
BatchEq == \A k \in 1..Len(expect) : \E j \in 0..Len(goods) : expect[k] = Ids(SubSeq(goods, 1, j))
Idempotent == \A k \in 1..(Len(hist) - 1) :
                (hist[k].op = "process" /\ hist[k+1].op = "process") =>
                   LET n == Cardinality({j \in 1..k : hist[j].op = "process"}) IN expect[n] = expect[n + 1]
NamesUnique == \A a, b \in 1..Len(goods) : a # b => goods[a].names \cap goods[b].names = {}
\* only histories that end with Process are exported (the others have nothing to observe at the end)
Export == hist = <<>> \/ hist[Len(hist)].op # "process" \/ PrintT(<<"CASE", ToJson([hist |-> hist, expect |-> expect])>>)
=============================================================================
