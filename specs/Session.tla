------------------------------ MODULE Session ------------------------------
(***************************************************************************)
(* C18 (and the history layer of C01).  One module set used over time:     *)
(*   LoadGood(t)  a well-formed text; accepted unless one of the module    *)
(*                names it defines is already loaded                       *)
(*   LoadBad(t)   a text the loader rejects (syntax error, rejected        *)
(*                statement, unknown top-level keyword, a two-module text  *)
(*                whose second module is rejected); leaves no trace        *)
(*   Process      the result is Batch(goods): what a fresh set loaded with *)
(*                exactly the accepted texts, in the same relative order,  *)
(*                yields - whatever happened before on this set            *)
(*   Query        read access; changes nothing                             *)
(*   Get          GetModule of a loaded module: a Process in disguise      *)
(*   Clear        the public ClearEntryCache: forgets the trees; what the   *)
(*                next Process / Get yields is not affected                *)
(* Batch is left uninterpreted (the harness computes it with the real      *)
(* library on a fresh set); the specification says WHICH texts count and   *)
(* that nothing else does.                                                 *)
(***************************************************************************)
EXTENDS Naturals, Sequences, FiniteSets, TLC, Json
CONSTANTS Good,     \* good texts: [id, names (module / submodule names the text defines)]
          Bad,      \* bad text ids
          MaxOps,
          WithGet   \* explore GetModule and ClearEntryCache as well

VARIABLES hist,     \* the operations so far: [op, text, ok]
          goods,    \* accepted texts, in order of acceptance
          expect    \* per Process / Query in hist: the sequence of texts whose batch result must be observed
vars == <<hist, goods, expect>>

Loaded == UNION {goods[k].names : k \in 1..Len(goods)}
Ids(s) == [k \in 1..Len(s) |-> s[k].id]
Init == hist = <<>> /\ goods = <<>> /\ expect = <<>>
LoadGood(t) == /\ Len(hist) < MaxOps
               /\ LET ok == t.names \cap Loaded = {} IN
                  /\ hist' = Append(hist, [op |-> "load", text |-> t.id, ok |-> ok])
                  /\ goods' = IF ok THEN Append(goods, t) ELSE goods
               /\ UNCHANGED expect
LoadBad(b) == /\ Len(hist) < MaxOps
              /\ hist' = Append(hist, [op |-> "load", text |-> b, ok |-> FALSE])
              /\ UNCHANGED <<goods, expect>>
Process == /\ Len(hist) < MaxOps
           /\ hist' = Append(hist, [op |-> "process", text |-> "", ok |-> TRUE])
           /\ expect' = Append(expect, Ids(goods))
           /\ UNCHANGED goods
\* (a read at any time once something is loaded - also between the last load and the next run, on trees nobody has
\* processed yet: what a later run yields does not depend on it)
Query == /\ Len(hist) < MaxOps /\ goods # <<>> /\ (hist[Len(hist)].op # "query")
         /\ hist' = Append(hist, [op |-> "query", text |-> "", ok |-> TRUE])
         /\ UNCHANGED <<goods, expect>>
\* GetModule(name of a loaded module) processes the set and hands out that module's tree
Get == /\ Len(hist) < MaxOps /\ goods # <<>>
       /\ hist' = Append(hist, [op |-> "get", text |-> "", ok |-> TRUE])
       /\ expect' = Append(expect, Ids(goods))
       /\ UNCHANGED goods
\* ClearEntryCache, right after a run: nothing a later run yields depends on it
IsRun(o) == o.op \in {"process", "get"}
Clear == /\ Len(hist) < MaxOps /\ hist # <<>> /\ IsRun(hist[Len(hist)])
         /\ hist' = Append(hist, [op |-> "clear", text |-> "", ok |-> TRUE])
         /\ UNCHANGED <<goods, expect>>
Next == (\E t \in Good : LoadGood(t)) \/ (\E b \in Bad : LoadBad(b)) \/ Process \/ Query \/ (WithGet /\ (Get \/ Clear))
Spec == Init /\ [][Next]_vars

\* ---- properties -------------------------------------------------------------------
\* a failed load leaves no trace: nothing that determines later results changes
NoTrace == [][ (Len(hist') = Len(hist) + 1 /\ hist'[Len(hist')].op = "load" /\ ~hist'[Len(hist')].ok) => goods' = goods ]_vars
\* the result of every Process is determined by the accepted texts alone, and re-processing changes nothing
BatchEq == \A k \in 1..Len(expect) : \E j \in 0..Len(goods) : expect[k] = Ids(SubSeq(goods, 1, j))
Idempotent == \A k \in 1..(Len(hist) - 1) :
                (IsRun(hist[k]) /\ IsRun(hist[k+1])) =>
                   LET n == Cardinality({j \in 1..k : IsRun(hist[j])}) IN expect[n] = expect[n + 1]
NamesUnique == \A a, b \in 1..Len(goods) : a # b => goods[a].names \cap goods[b].names = {}
\* only histories that end with Process are exported (the others have nothing to observe at the end)
Export == hist = <<>> \/ ~IsRun(hist[Len(hist)]) \/ PrintT(<<"CASE", ToJson([hist |-> hist, expect |-> expect])>>)
=============================================================================
