---- MODULE SchemaTrace ----
(* Observed pointer graphs of the real Entry trees, judged by the           *)
(* well-formedness predicate of C04 (DESIGN.md D.4): each child filed under *)
(* its own name, pointing back to its parent (rpc input / output included), *)
(* every object reachable by exactly one path from exactly one root, kind / *)
(* child map / list attributes / type consistent, every child of a choice a *)
(* case, no augment left, no recorded error when Process returned none.     *)
EXTENDS Naturals, Sequences, FiniteSets, TLC, Json, IOUtils
Trace == ndJsonDeserialize(IOEnv.TRACE)
VARIABLES l, tid, rejected
Ev == Trace[l]
TInit == l = 1 /\ tid = 0 /\ rejected = FALSE
Reset == /\ l <= Len(Trace) /\ Ev.ev = "reset" /\ tid' = Ev.tid /\ rejected' = FALSE /\ l' = l + 1

DirIds(e) == {e.dir[k][2] : k \in 1..Len(e.dir)}
Kids(E, i) == DirIds(E[i]) \cup ({E[i].rpcIn, E[i].rpcOut} \ {0})
Leafy(k) == k \in {"leaf", "leaf-list"}
\* the conjuncts are numbered so that a rejection can say which one failed
WF(H, n) ==
  LET E == H.entries  Ids == 1..Len(E)  Roots == {H.roots[m] : m \in DOMAIN H.roots} IN
  CASE n = 1 -> \A i \in Ids : \A k \in 1..Len(E[i].dir) :
                   LET c == E[i].dir[k][2] IN E[c].name = E[i].dir[k][1] /\ E[c].parent = i
    [] n = 2 -> \A i \in Ids : /\ E[i].rpcIn  # 0 => E[E[i].rpcIn].parent  = i /\ E[E[i].rpcIn].kind  = "input"
                               /\ E[i].rpcOut # 0 => E[E[i].rpcOut].parent = i /\ E[E[i].rpcOut].kind = "output"
    [] n = 3 -> \A r \in Roots : E[r].parent = 0 /\ \A j \in Ids : r \notin Kids(E, j)
    [] n = 4 -> \A i \in Ids \ Roots : Cardinality({j \in Ids : i \in Kids(E, j)}) = 1       \* one place only
    [] n = 5 -> \A i \in Ids : Leafy(E[i].kind) <=> ~E[i].hasDir
    [] n = 6 -> \A i \in Ids : Leafy(E[i].kind) => E[i].hasType
    [] n = 7 -> \A i \in Ids : E[i].hasListAttr <=> E[i].kind \in {"list", "leaf-list"}
    [] n = 8 -> \A i \in Ids : E[i].kind = "choice" => \A c \in Kids(E, i) : E[c].kind = "case"
    [] n = 9 -> \A i \in Ids : E[i].naug = 0
    [] n = 10 -> H.errs = 0 => \A i \in Ids : E[i].nerrs = 0                                  \* no hidden errors
    [] n = 11 -> \A i \in Ids : Cardinality(DirIds(E[i])) = Len(E[i].dir)                      \* no object filed twice in one map
    [] n = 12 -> \A i, j \in Ids : (i # j /\ E[i].extra # 0) => E[i].extra # E[j].extra      \* no annotation map shared by two objects
    [] OTHER -> TRUE
NConj == 12
FirstBad(H) == IF \A n \in 1..NConj : WF(H, n) THEN 0 ELSE CHOOSE n \in 1..NConj : ~WF(H, n) /\ \A k \in 1..(n-1) : WF(H, k)
THeap == /\ l <= Len(Trace) /\ Ev.ev = "heap" /\ ~rejected /\ FirstBad(Ev) = 0
         /\ l' = l + 1 /\ UNCHANGED <<tid, rejected>>
TReject == /\ l <= Len(Trace) /\ Ev.ev = "heap" /\ ~rejected /\ FirstBad(Ev) # 0
           /\ PrintT(<<"REJECT", tid, l, FirstBad(Ev)>>)
           /\ rejected' = TRUE /\ l' = l + 1 /\ UNCHANGED tid
\* events judged by SchemaProgTrace in the same file
TForeign == /\ l <= Len(Trace) /\ Ev.ev \in {"program", "observed"} /\ ~rejected /\ l' = l + 1 /\ UNCHANGED <<tid, rejected>>
TSkip == /\ l <= Len(Trace) /\ Ev.ev # "reset" /\ rejected /\ l' = l + 1 /\ UNCHANGED <<tid, rejected>>
TNext == Reset \/ THeap \/ TReject \/ TForeign \/ TSkip
Consumed == TLCGet("stats").diameter - 1 = Len(Trace)
====
