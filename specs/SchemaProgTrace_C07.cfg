CONSTANTS
  Programs = {}
  CanonOrder <- MCOrderB
  Focus = {"struct", "ns", "errs", "nolate"}
INIT TInit
NEXT TNext
POSTCONDITION Consumed
CHECK_DEADLOCK FALSE
