CONSTANTS
  Programs = {}
  CanonOrder <- MCOrderB
  Focus = {"struct", "ns", "errs"}
INIT TInit
NEXT TNext
POSTCONDITION Consumed
CHECK_DEADLOCK FALSE
