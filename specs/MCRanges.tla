---- MODULE MCRanges ----
EXTENDS Ranges
\* three clusters: at the lower bound (0..2), inside (10..12), at the upper bound (20..22)
MCPoints == {0, 1, 2, 10, 11, 12, 20, 21, 22}
MCChainPoints == {0, 1, 11, 12, 21, 22}
R(a, b) == [lo |-> a, hi |-> b]
MCParents == { << R(0, 22) >>, << R(1, 21) >>, << R(0, 11) >>, << R(11, 22) >>, << R(0, 2), R(10, 22) >>,
               << R(0, 1), R(11, 11), R(21, 22) >>, << R(1, 10), R(12, 20) >>, << R(2, 2) >>, << R(0, 0), R(22, 22) >> }
MCParentsFew == { << R(0, 22) >>, << R(0, 1), R(11, 11), R(21, 22) >>, << R(1, 10), R(12, 20) >> }
\* bounds far outside every type (30: above, -10: below); the harness spells them with a magnitude of 2^64 or more
MCFarPoints == {0, 11, 22, 30, 0-10}
MCParentsFar == { << R(0, 22) >>, << R(1, 21) >> }
MCToks == {1, 11, 22, MINSYM, MAXSYM, DOTS, BAR, JUNK}
====
