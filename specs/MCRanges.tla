---- MODULE MCRanges ----
EXTENDS Ranges
\* three clusters: at the lower bound (0..2), inside (10..12), at the upper bound (20..22)
MCPoints == {0, 1, 2, 10, 11, 12, 20, 21, 22}
MCChainPoints == {0, 1, 11, 12, 21, 22}
R(a, b) == [lo |-> a, hi |-> b]
MCParents == { << R(0, 22) >>, << R(1, 21) >>, << R(0, 11) >>, << R(11, 22) >>, << R(0, 2), R(10, 22) >>,
               << R(0, 1), R(11, 11), R(21, 22) >>, << R(1, 10), R(12, 20) >>, << R(2, 2) >>, << R(0, 0), R(22, 22) >> }
MCParentsFew == { << R(0, 22) >>, << R(0, 1), R(11, 11), R(21, 22) >>, << R(1, 10), R(12, 20) >> }
MCToks == {1, 11, 22, MINSYM, MAXSYM, DOTS, BAR, JUNK}
====
