CONSTANTS
  Programs = {}
  CanonOrder <- MCOrderB
  Focus = {"ro", "ns"}
INIT TInit
NEXT TNext
POSTCONDITION Consumed
CHECK_DEADLOCK FALSE
