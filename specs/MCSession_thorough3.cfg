CONSTANTS
  Good <- MCGood3Six
  Bad <- MCBad3
  MaxOps = 6
  WithGet = FALSE
INIT Init
NEXT Next
INVARIANTS BatchEq Idempotent NamesUnique Export
PROPERTIES NoTrace
CHECK_DEADLOCK FALSE
