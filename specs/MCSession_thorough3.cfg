CONSTANTS
  Good <- MCGood3
  Bad = {}
  MaxOps = 6
INIT Init
NEXT Next
INVARIANTS BatchEq Idempotent NamesUnique Export
CHECK_DEADLOCK FALSE
