---- MODULE MCS_cfg ----
EXTENDS MCSchema
Space == SCfg(0)
====
