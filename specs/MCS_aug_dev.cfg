CONSTANTS
  Programs <- Space
  CanonOrder <- MCOrder2
INIT Init
NEXT Next
VIEW View
INVARIANTS Confluence ExactlyOnce NeverTwice ProperTrees Export
PROPERTIES AppliedStays
CHECK_DEADLOCK FALSE
