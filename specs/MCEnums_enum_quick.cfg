CONSTANTS
  Names = {"a", "b", "c"}
  Vals <- MCVals
  MinV <- MCMin
  MaxV = 1000
  Unique = TRUE
  MaxLen = 3
  NONE = 7777
INIT Init
NEXT Next
INVARIANTS NamesUnique ValsUnique InRange HiIsMax Inverse Export
PROPERTIES ImplicitRule ExplicitRule
CHECK_DEADLOCK FALSE
