---- MODULE SchemaProgTrace ----
(* Direction B for the Schema family: random programs far beyond the        *)
(* exhaustive spaces (deeper trees, more groupings, chains of augments,     *)
(* several deviations) are processed by the real library; the observed      *)
(* per-path facts are compared with CanonFinal, the specification's outcome *)
(* under one fixed order (Confluence makes the order irrelevant).           *)
EXTENDS Schema, IOUtils
CONSTANT Focus      \* which facts this property compares: subset of {"struct", "ns", "ro", "attrs", "errs"}
Trace == ndJsonDeserialize(IOEnv.TRACE)
VARIABLES l, tid, rejected
Ev == Trace[l]
Idle == /\ trees = << >> /\ pending = << >> /\ work = <<>> /\ i = 0 /\ progress = 0 /\ devleft = {}
        /\ errs = FALSE /\ pc = "trace" /\ sincefix = 0 /\ nfix = 0 /\ naug = 0
TInit == l = 1 /\ tid = 0 /\ rejected = FALSE /\ prog = [mods |-> << >>, ignoreNS |-> FALSE] /\ Idle
Keep == UNCHANGED <<trees, pending, work, i, progress, devleft, errs, pc, sincefix, nfix, naug>>
Reset == /\ l <= Len(Trace) /\ Ev.ev = "reset" /\ tid' = Ev.tid /\ rejected' = FALSE /\ l' = l + 1 /\ UNCHANGED prog /\ Keep
\* the program becomes the value of the variable the specification's operators read
TProgram == /\ l <= Len(Trace) /\ Ev.ev = "program" /\ prog' = Ev.prog /\ l' = l + 1 /\ UNCHANGED <<tid, rejected>> /\ Keep
SeqSet(s) == {s[k] : k \in 1..Len(s)}
\* ReadOnly is not compared where an explicit config statement applies inside an rpc, action or notification (outside C12's claim)
ExemptRO(m) == {f.p : f \in {g \in CanonFlat(m) : g.opcfg}}
ProjM(f, m) == [p |-> f.p, kind |-> IF "struct" \in Focus THEN f.kind ELSE "",
            ns |-> IF "ns" \in Focus THEN f.ns ELSE "",
            ro |-> IF "ro" \in Focus /\ f.p \notin ExemptRO(m) THEN f.ro ELSE FALSE,
            attrs |-> IF "attrs" \in Focus /\ ~f.implicit THEN <<f.cfg, f.mand, f.dflt, f.la, f.units, f.type, f.iff, f.dv, f.idb>> ELSE <<>>]
ExpectedErr == BuildErr \/ CanonFinal.err
\* C17: a lookup finds exactly the node the path names: found (and that very node) when the specification has a
\* node at that path, nothing when a step names no child
PathsOf(m) == {f.p : f \in CanonFlat(m)}
LookupsOK(e) == \A k \in 1..Len(e.lookups) :
                  LET q == e.lookups[k] IN
                  IF q.p \in PathsOf(q.mod) THEN q.found /\ q.same ELSE ~q.found
ObservedOK1(e) ==
  /\ ("find" \in Focus /\ ~e.errs /\ ~ExpectedErr) => LookupsOK(e)
  /\ "errs" \in Focus => e.errs = ExpectedErr
  /\ (~e.errs /\ ~ExpectedErr) =>
        \A m \in Mods : {ProjM(f, m) : f \in CanonFlat(m)} = {ProjM(f, m) : f \in SeqSet(e.flat[m])}
ObservedOK(e) == ("nolate" \in Focus /\ LatePhaseUsed) \/ ObservedOK1(e)
TObserved == /\ l <= Len(Trace) /\ Ev.ev = "observed" /\ ~rejected /\ ObservedOK(Ev)
             /\ l' = l + 1 /\ UNCHANGED <<tid, rejected, prog>> /\ Keep
TReject == /\ l <= Len(Trace) /\ Ev.ev = "observed" /\ ~rejected /\ ~ObservedOK(Ev)
           /\ PrintT(<<"REJECT", tid, l>>)
           /\ rejected' = TRUE /\ l' = l + 1 /\ UNCHANGED <<tid, prog>> /\ Keep
\* events of other trace specifications in the same file (the heap dumps judged by SchemaTrace)
TForeign == /\ l <= Len(Trace) /\ Ev.ev = "heap" /\ ~rejected /\ l' = l + 1 /\ UNCHANGED <<tid, rejected, prog>> /\ Keep
TSkip == /\ l <= Len(Trace) /\ Ev.ev \notin {"reset", "program"} /\ rejected /\ l' = l + 1 /\ UNCHANGED <<tid, rejected, prog>> /\ Keep
TNext == Reset \/ TProgram \/ TObserved \/ TReject \/ TForeign \/ TSkip
Consumed == TLCGet("stats").diameter - 1 = Len(Trace)
MCOrderB == <<"a", "as", "b", "bs", "c", "d", "dd", "ds", "u", "us", "w", "v">>
====
