CONSTANTS
  Good <- MCGood3
  Bad = {}
  MaxOps = 4
INIT Init
NEXT Next
INVARIANTS BatchEq Idempotent NamesUnique Export
CHECK_DEADLOCK FALSE
