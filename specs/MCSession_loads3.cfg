CONSTANTS
  Good <- MCGood3
  Bad <- MCBad3
  MaxOps = 4
  WithGet = FALSE
INIT Init
NEXT Next
INVARIANTS BatchEq Idempotent NamesUnique Export
CHECK_DEADLOCK FALSE
