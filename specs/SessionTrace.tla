---- MODULE SessionTrace ----
(* Direction B for C18: long random histories (8-18 operations, far beyond the exhaustive    *)
(* bound of 5-6) over ALL catalogues of texts at once, executed on one real module set.      *)
(* Every recorded operation must be a step of Session.tla: a load with the acceptance the    *)
(* action computes (a bad text is never accepted; a good one is refused exactly when a name  *)
(* it defines is loaded), a Process / GetModule whose observable result equals the batch run *)
(* (computed by the real library on a fresh set) of exactly the texts the specification says *)
(* were accepted so far - the event carries the list the harness used, so a wrong list is    *)
(* rejected too.  Non-blocking.                                                              *)
EXTENDS MCSession, IOUtils
Trace == ndJsonDeserialize(IOEnv.TRACE)
VARIABLES l, tid, rejected
tvars == <<vars, l, tid, rejected>>
Ev == Trace[l]
AllGood == MCGood \cup MCGood2 \cup MCGood3
TextOf(id) == CHOOSE t \in AllGood : t.id = id
TInit == l = 1 /\ tid = 0 /\ rejected = FALSE /\ Init
Reset == /\ l <= Len(Trace) /\ Ev.ev = "reset" /\ tid' = Ev.tid /\ rejected' = FALSE /\ l' = l + 1
         /\ hist' = <<>> /\ goods' = <<>> /\ expect' = <<>>
\* reason codes: 1 acceptance of a load, 2 the texts that count for a run, 3 the run differs from the batch run,
\*               4 an operation the specification does not allow at this point
Last(s) == s[Len(s)]
StepOK(e) ==
  CASE e.ev = "load" /\ e.bad -> LoadBad(e.text) /\ ~e.ok
    [] e.ev = "load" /\ ~e.bad -> LoadGood(TextOf(e.text)) /\ Last(hist').ok = e.ok
    [] e.ev = "process" -> Process /\ Last(expect') = e.accepted /\ e.eq
    [] e.ev = "get" -> Get /\ Last(expect') = e.accepted /\ e.eq
    [] e.ev = "query" -> Query
    [] e.ev = "clear" -> Clear
    [] OTHER -> FALSE
Code(e) ==
  CASE e.ev = "load" -> 1
    [] e.ev \in {"process", "get"} -> IF e.accepted # Ids(goods) THEN 2 ELSE IF ~e.eq THEN 3 ELSE 4
    [] OTHER -> 4
TStep == /\ l <= Len(Trace) /\ Ev.ev # "reset" /\ ~rejected /\ StepOK(Ev)
         /\ l' = l + 1 /\ UNCHANGED <<tid, rejected>>
TReject == /\ l <= Len(Trace) /\ Ev.ev # "reset" /\ ~rejected /\ ~ENABLED StepOK(Ev)
           /\ PrintT(<<"REJECT", tid, l, Code(Ev)>>)
           /\ rejected' = TRUE /\ l' = l + 1 /\ UNCHANGED <<vars, tid>>
TSkip == /\ l <= Len(Trace) /\ Ev.ev # "reset" /\ rejected /\ l' = l + 1 /\ UNCHANGED <<vars, tid, rejected>>
TNext == Reset \/ TStep \/ TReject \/ TSkip
Consumed == TLCGet("stats").diameter - 1 = Len(Trace)
====
