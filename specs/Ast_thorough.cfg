CONSTANTS
  MaxKids = 3
  Extra = {"zz", "ex:t", "ex:Name", "key", "Name", "Statement", "Parent", "Ext", ":x", "x:", "a:b:c"}
INIT Init
NEXT Next
INVARIANTS OneToOne Rejects Export
CHECK_DEADLOCK FALSE
