---- MODULE MCConc ----
EXTENDS Concurrency
S(set, kind) == [set |-> set, kind |-> kind]
\* reader operations on the shared processed set "s": namespace lookup, cached entry lookup
NsOp == << S("s", "ns") >>
EcOp == << S("s", "ecr") >>
ReaderOps == {NsOp, EcOp, NsOp \o EcOp, EcOp \o NsOp, NsOp \o NsOp}
MC2 == {[g \in {1, 2} |-> IF g = 1 THEN a ELSE b] : a \in ReaderOps, b \in ReaderOps}
MC3 == {[g \in {1, 2, 3} |-> IF g = 1 THEN a ELSE IF g = 2 THEN b ELSE c] : a \in {NsOp, NsOp \o EcOp}, b \in {NsOp, EcOp \o NsOp}, c \in {NsOp, EcOp}}
MCP2 == {1, 2}
MCP3 == {1, 2, 3}
====
