---- MODULE MCSession ----
EXTENDS Session
T(id, names) == [id |-> id, names |-> names]
MCGood == { T("t2c", {"t2"}), T("ib", {"ib"}), T("bb-r1", {"bb@1"}), T("bb-r2", {"bb@2"}), T("e5", {"e5"}), T("i1", {"i1"}), T("t2", {"t2"}), T("a3", {"a3"}), T("m4", {"m4"}), T("s4", {"s4"}), T("t2b", {"t2"}) }
MCGoodQuick == { T("t2c", {"t2"}), T("ib", {"ib"}), T("bb-r1", {"bb@1"}), T("bb-r2", {"bb@2"}), T("e5", {"e5"}), T("i1", {"i1"}), T("t2", {"t2"}), T("a3", {"a3"}), T("m4", {"m4"}), T("s4", {"s4"}) }
MCBad == { "x-top-level-grouping", "x-syntax", "x-typedefs-then-rejected", "x-unknown-top", "x-second-module-rejected" }
====
