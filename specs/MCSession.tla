---- MODULE MCSession ----
EXTENDS Session
T(id, names) == [id |-> id, names |-> names]
MCGood == { T("ab-r1", {"ab@1"}), T("t2c", {"t2"}), T("ib", {"ib"}), T("bb-r1", {"bb@1"}), T("bb-r2", {"bb@2"}), T("e5", {"e5"}), T("i1", {"i1"}), T("t2", {"t2"}), T("a3", {"a3"}), T("m4", {"m4"}), T("s4", {"s4"}), T("t2b", {"t2"}) }
MCGoodQuick == { T("ab-r1", {"ab@1"}), T("t2c", {"t2"}), T("ib", {"ib"}), T("bb-r1", {"bb@1"}), T("bb-r2", {"bb@2"}), T("e5", {"e5"}), T("i1", {"i1"}), T("t2", {"t2"}), T("a3", {"a3"}), T("m4", {"m4"}), T("s4", {"s4"}) }
\* second catalogue: type errors that must come back on every run, a late deviating / augmenting module, identities with
\* several bases of which one arrives later, a linking failure after a successful run, a broken grouping used twice
MCGood2 == { T("fd", {"fd"}), T("e6", {"e6"}), T("tgt", {"tgt"}), T("tgt2", {"tgt2"}), T("dv", {"dv"}), T("dvok", {"dvok"}), T("rv", {"rv@1"}), T("lnk", {"lnk"}), T("bg", {"bg"}) }
\* third catalogue: identities and includes over time (bases that arrive later, a foreign include, a submodule revision that drops an identity)
MCGood3 == { T("idm", {"idm"}), T("idb", {"idb"}), T("fm1", {"fm1"}), T("fm2", {"fm2"}), T("fs", {"fs"}),
             T("au", {"ida", "idu"}), T("sr1", {"ids@1"}), T("sr2", {"ids@2"}), T("ibf", {"ibf"}),
             T("lnk", {"lnk"}),
             T("lo", {"lom"}), T("lo1", {"los@1"}), T("lo2", {"los@2"}) }      \* (its import can be satisfied from the directory of ibf's file, once that has been read)
\* six operations over the identity / submodule-revision part of the third catalogue (thorough tier; all of it runs at five)
MCGood3Six == { T("idm", {"idm"}), T("idb", {"idb"}), T("au", {"ida", "idu"}), T("sr1", {"ids@1"}), T("sr2", {"ids@2"}),
                T("lo", {"lom"}), T("lo1", {"los@1"}), T("lo2", {"los@2"}) }
\* two revisions of a module and two revisions of its importer, each importer revision pinned to its own revision (C05)
MCGoodRev == { T("bb-r1", {"bb@1"}), T("bb-r2", {"bb@2"}), T("ab-r1", {"ab@1"}), T("ab-r2", {"ab@2"}) }
MCBad3 == { "x-file-syntax" }
MCBad2 == { "x-top-level-container", "x-top-level-grouping" }
\* six operations over a reduced first catalogue (thorough tier)
MCGoodSix == { T("i1", {"i1"}), T("t2", {"t2"}), T("a3", {"a3"}), T("ib", {"ib"}), T("bb-r1", {"bb@1"}), T("bb-r2", {"bb@2"}) }
MCBadSix == { "x-syntax", "x-top-level-grouping" }
MCBad == { "x-file-syntax", "x-top-level-grouping", "x-syntax", "x-typedefs-then-rejected", "x-unknown-top", "x-second-module-rejected" }
====
