---- MODULE MCS_aug_sub ----
EXTENDS MCSchema
Space == SAugSub(0)
====
