---- MODULE MCT_bind ----
EXTENDS MCTypes
Space == SBind(0) \cup SSame(0)
====
