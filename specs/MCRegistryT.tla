---- MODULE MCRegistryT ----
EXTENDS MCRegistry
MCLayoutsFull == MCLayouts(Dir1Files)
====
