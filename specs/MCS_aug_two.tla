---- MODULE MCS_aug_two ----
EXTENDS MCSchema
Space == SAugTwo(0)
====
