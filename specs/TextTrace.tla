---- MODULE TextTrace ----
(* Direction B for C02 / C16: a recorded call of yang.Parse (the text as a  *)
(* character sequence, what came back) is judged by feeding the characters  *)
(* to the reader of Text.tla.                                               *)
EXTENDS Text, IOUtils
CONSTANT CheckForest, CheckPos
Trace == ndJsonDeserialize(IOEnv.TRACE)
VARIABLES l, tid, rejected
Ev == Trace[l]
TInit == l = 1 /\ tid = 0 /\ rejected = FALSE /\ Init
Reset == /\ l <= Len(Trace) /\ Ev.ev = "reset" /\ tid' = Ev.tid /\ rejected' = FALSE /\ l' = l + 1 /\ UNCHANGED s
Start == [text |-> <<>>, mode |-> "ground", buf |-> <<>>, tl |-> 1, tcl |-> 1, toks |-> <<>>,
          line |-> 1, col |-> 1, tc |-> 0, qcol |-> 0, strip |-> FALSE,
          ps |-> "kw", depth |-> 0, pat |-> FALSE,
          nlex |-> 0, lexpos |-> NONE, synerr |-> NONE, out |-> FALSE, n |-> 0]
RECURSIVE Strip(_)
Strip(f) == [i \in 1..Len(f) |-> [kw |-> f[i].kw, has |-> f[i].has, arg |-> f[i].arg, kids |-> Strip(f[i].kids)]]
TextOK(e) ==
  LET r == FeedAll(Start, e.chars)
      res == Result(r)
  IN \/ r.out                                  \* outside the claim
     \/ /\ CheckForest => /\ e.accept = res.accept
                          /\ e.accept => Strip(e.forest) = Strip(res.forest)
        /\ CheckPos => /\ (e.accept /\ res.accept) => e.forest = res.forest
                       /\ (~e.accept /\ ~res.accept /\ res.nf = 1 /\ ~res.err.fuzzy)
                             => (e.haserr /\ e.errline = res.err.line /\ e.errcol = res.err.col)
TStep == /\ l <= Len(Trace) /\ Ev.ev = "text" /\ ~rejected /\ TextOK(Ev)
         /\ s' = FeedAll(Start, Ev.chars)
         /\ l' = l + 1 /\ UNCHANGED <<tid, rejected>>
TReject == /\ l <= Len(Trace) /\ Ev.ev = "text" /\ ~rejected /\ ~TextOK(Ev)
           /\ PrintT(<<"REJECT", tid, l>>)
           /\ rejected' = TRUE /\ l' = l + 1 /\ UNCHANGED <<tid, s>>
TSkip == /\ l <= Len(Trace) /\ Ev.ev # "reset" /\ rejected /\ l' = l + 1 /\ UNCHANGED <<tid, rejected, s>>
TNext == Reset \/ TStep \/ TReject \/ TSkip
cLF == "\n"
cTAB == "\t"
cCR == "\r"
cDQ == "\""
cSQ == "'"
cBS == "\\"
cPattern == <<"p","a","t","t","e","r","n">>
cNoPrefix == <<>>
Consumed == TLCGet("stats").diameter - 1 = Len(Trace)
\* the reader's own invariants on every real text
TPosOK == PosOK
TColIsCharCount == ColIsCharCount
====
