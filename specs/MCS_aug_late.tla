---- MODULE MCS_aug_late ----
EXTENDS MCSchema
Space == SAugLate(0)
====
