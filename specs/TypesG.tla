------------------------------- MODULE TypesG -------------------------------
(***************************************************************************)
(* C09, generalised.  Types.tla explores binding and inheritance over one  *)
(* fixed skeleton of twelve scopes; this module states the same rules over *)
(* an ARBITRARY scope structure K, so that recorded resolutions of random  *)
(* schemas (TypesTrace.tla) can be judged, and so that the fixed skeleton  *)
(* can be checked to be one instance of it (MCTypes.tla: SkeletonAgrees).  *)
(*                                                                         *)
(*   K.scopes  sequence of [parent, root]: scope id -> enclosing scope     *)
(*             (0 for the top level of a module or submodule) and the      *)
(*             name of the module / submodule whose text it is             *)
(*   K.roots   sequence of [name, owner, pfx, incs, imps, top]: modules    *)
(*             and submodules; owner = "" for a module, else the module it *)
(*             belongs to; pfx = the prefix it calls itself by (belongs-to *)
(*             prefix for a submodule); incs = names it includes;          *)
(*             imps = sequence of [p, mod]; top = its top-level scope      *)
(*   tds       set of typedefs [scope, name, base, units, dflt, pat, own]  *)
(*             base = [p, n] as written; own = what the type statement     *)
(*             states for a built-in base (fd, enums, bits, path, members) *)
(***************************************************************************)
EXTENDS Naturals, Sequences, FiniteSets

GBuiltins == {"string", "int32", "int8", "decimal64", "enumeration", "union", "leafref", "bits", "boolean", "empty", "binary", "uint16"}
GRng(s) == {s[j] : j \in 1..Len(s)}
RootRec(K, n) == CHOOSE r \in GRng(K.roots) : r.name = n
RECURSIVE GUp(_, _)
GUp(K, s) == IF s = 0 THEN <<>> ELSE <<s>> \o GUp(K, K.scopes[s].parent)
IncTops(K, r) == [k \in 1..Len(r.incs) |-> RootRec(K, r.incs[k]).top]
\* where a reference written in scope `from` looks, in order (RFC 7950 5.1, 5.5, 6.4.1): the enclosing scopes,
\* the submodules its module / submodule includes, for a submodule its module and that module's submodules;
\* a foreign prefix: the top level of exactly the module imported under it by the text that writes the
\* reference, and the submodules that module includes
GSearchChain(K, from, ref) ==
  LET r == RootRec(K, K.scopes[from].root) IN
  IF ref.p = "" \/ ref.p = r.pfx THEN
       GUp(K, from) \o IncTops(K, r)
       \o (IF r.owner = "" THEN <<>> ELSE LET o == RootRec(K, r.owner) IN <<o.top>> \o IncTops(K, o))
  ELSE LET hits == {i \in 1..Len(r.imps) : r.imps[i].p = ref.p} IN
       IF hits = {} THEN <<>>
       ELSE LET m == RootRec(K, r.imps[CHOOSE i \in hits : TRUE].mod) IN <<m.top>> \o IncTops(K, m)
GAt(tds, s, n) == {t \in tds : t.scope = s /\ t.name = n}
RECURSIVE GFirstIn(_, _, _)
GFirstIn(tds, ch, n) == IF ch = <<>> THEN [found |-> FALSE]
                        ELSE IF GAt(tds, Head(ch), n) # {} THEN [found |-> TRUE, td |-> CHOOSE t \in GAt(tds, Head(ch), n) : TRUE]
                        ELSE GFirstIn(tds, Tail(ch), n)
GBind(K, tds, from, ref) ==
  IF ref.p = "" /\ ref.n \in GBuiltins THEN [kind |-> "builtin", n |-> ref.n]
  ELSE LET f == GFirstIn(tds, GSearchChain(K, from, ref), ref.n) IN
       IF f.found THEN [kind |-> "td", td |-> f.td] ELSE [kind |-> "none"]
\* the derivation chain of a reference, nearest typedef first; a typedef met twice is a cycle
RECURSIVE GChain(_, _, _, _, _)
GChain(K, tds, from, ref, acc) ==
  LET b == GBind(K, tds, from, ref) IN
  CASE b.kind = "none" -> [err |-> TRUE]
    [] b.kind = "builtin" -> [err |-> FALSE, chain |-> acc, builtin |-> b.n]
    [] b.kind = "td" -> IF b.td \in GRng(acc) THEN [err |-> TRUE]
                        ELSE GChain(K, tds, b.td.scope, b.td.base, Append(acc, b.td))
RECURSIVE GNearest(_, _)
GNearest(seq, fld) == IF seq = <<>> THEN "" ELSE IF seq[1][fld] # "" THEN seq[1][fld] ELSE GNearest(Tail(seq), fld)
GRev(s) == [k \in 1..Len(s) |-> s[Len(s) + 1 - k]]
RECURSIVE GDedup(_, _)
GDedup(s, seen) == IF s = <<>> THEN <<>> ELSE IF Head(s) \in seen THEN GDedup(Tail(s), seen) ELSE <<Head(s)>> \o GDedup(Tail(s), seen \cup {Head(s)})
\* one member of a union, as far as the statement pins it: its kind and the units it inherits
GMember(K, tds, from, ref) ==
  LET c == GChain(K, tds, from, ref, <<>>) IN
  IF c.err THEN [err |-> TRUE] ELSE [err |-> FALSE, kind |-> c.builtin, units |-> GNearest(c.chain, "units")]
\* does resolving a use [scope, ref, own] fail?  Unknown name, or a typedef met again on the way - the way leads
\* through base types and, at a union, through every member (a union that contains itself is cyclic too)
GNoOwn == [fd |-> 0, enums |-> <<>>, bits |-> <<>>, path |-> "", members |-> <<>>]
RECURSIVE GBad(_, _, _, _)
GBad(K, tds, use, seen) ==
  LET b == GBind(K, tds, use.scope, use.ref) IN
  CASE b.kind = "none" -> TRUE
    [] b.kind = "builtin" ->
         b.n = "union" /\ \E k \in 1..Len(use.own.members) :
                             GBad(K, tds, [scope |-> use.scope, ref |-> use.own.members[k], own |-> GNoOwn], seen)
    [] b.kind = "td" -> b.td \in seen
                        \/ GBad(K, tds, [scope |-> b.td.scope, ref |-> b.td.base, own |-> b.td.own], seen \cup {b.td})
\* the resolved type of a use [scope, ref, pat, own]: the kind of the built-in at the end of the chain; units and
\* default of the nearest typedef that states them; patterns of the whole chain from the base outwards (the use's
\* own last), equal patterns once; what only the statement naming the built-in can state (fraction-digits, enum /
\* bit names, path, union members) from that statement; members bind where the union is written
GResolve(K, tds, use) ==
  LET c == GChain(K, tds, use.scope, use.ref, <<>>) IN
  IF GBad(K, tds, use, {}) THEN [err |-> TRUE]
  ELSE LET site == IF c.chain = <<>> THEN use ELSE c.chain[Len(c.chain)]         \* the statement that names the built-in
           levels == <<use>> \o c.chain
           pats == GDedup(SelectSeq([k \in 1..Len(levels) |-> GRev(levels)[k].pat], LAMBDA p : p # ""), {})
           mem == [k \in 1..Len(site.own.members) |-> GMember(K, tds, site.scope, site.own.members[k])]
       IN      [err |-> FALSE, kind |-> c.builtin,
                units |-> GNearest(c.chain, "units"), dflt |-> GNearest(c.chain, "dflt"),
                pats |-> pats,
                fd |-> IF c.builtin = "decimal64" THEN site.own.fd ELSE 0,
                enums |-> IF c.builtin = "enumeration" THEN GRng(site.own.enums) ELSE {},
                bits |-> IF c.builtin = "bits" THEN GRng(site.own.bits) ELSE {},
                path |-> IF c.builtin = "leafref" THEN site.own.path ELSE "",
                members |-> IF c.builtin = "union" THEN [k \in 1..Len(mem) |-> [kind |-> mem[k].kind, units |-> mem[k].units]] ELSE <<>>]
\* every typedef must resolve, used or not
GTypedefErr(K, tds, t) == GBad(K, tds, [scope |-> t.scope, ref |-> t.base, own |-> t.own], {t})
\* the declarative reading of "nearest enclosing scope": no scope searched earlier holds the name
GLexical(K, tds, from, ref) ==
  LET b == GBind(K, tds, from, ref)  ch == GSearchChain(K, from, ref) IN
  b.kind = "td" => \E k \in 1..Len(ch) : ch[k] = b.td.scope /\ \A j \in 1..(k-1) : GAt(tds, ch[j], ref.n) = {}
=============================================================================
