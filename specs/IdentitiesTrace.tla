---- MODULE IdentitiesTrace ----
(* Direction B for C11: random identity graphs (4 modules with submodules, up to  *)
(* ~30 identities, shared names, several bases, now and then an undefined base or *)
(* a cycle) rendered, loaded in two different orders and resolved by the real     *)
(* library.  The recorded outcome is judged by Identities.tla's declarative       *)
(* reading: an error exactly for an undefined base or a cycle; otherwise every    *)
(* identity lists exactly the identities that reach it, each once, the same       *)
(* sequence in both runs, and every identityref sees the list of its base.        *)
(* Non-blocking: a rejected trace is reported and the next one is judged.         *)
EXTENDS Identities, IOUtils
Trace == ndJsonDeserialize(IOEnv.TRACE)
VARIABLES l, tid
tvars == <<vars, l, tid>>
Ev == Trace[l]
TInit == l = 1 /\ tid = 0 /\ Init
Reset == /\ l <= Len(Trace) /\ Ev.ev = "reset" /\ tid' = Ev.tid /\ l' = l + 1 /\ UNCHANGED vars
SeqSet(s) == {s[j] : j \in 1..Len(s)}
ProgOf(e) == {[key |-> e.ids[j].key, home |-> e.ids[j].home, bases |-> SeqSet(e.ids[j].bases)] : j \in 1..Len(e.ids)}
\* reason codes: 1 error presence, 2 value set, 3 listed twice, 4 the two runs differ, 5 identityref
Reason(e) ==
  LET P == ProgOf(e)
      bad == UndefinedOf(P) \/ CyclicOf(P)
  IN IF e.err # bad THEN 1
     ELSE IF e.err THEN 0
     ELSE IF \E j \in 1..Len(e.values) : SeqSet(e.values[j].vals) # ValueSetOf(P, e.values[j].key) THEN 2
     ELSE IF Len(e.values) # Cardinality(KeysOf(P)) THEN 2
     ELSE IF \E j \in 1..Len(e.values) : Cardinality(SeqSet(e.values[j].vals)) # Len(e.values[j].vals) THEN 3
     ELSE IF e.values # e.values2 THEN 4
     ELSE IF \E j \in 1..Len(e.refs) : \A i \in 1..Len(e.values) : e.values[i].key = e.refs[j].key => e.values[i].vals # e.refs[j].vals THEN 5
     ELSE 0
TJudge == /\ l <= Len(Trace) /\ Ev.ev = "idents" /\ Reason(Ev) = 0
          /\ l' = l + 1 /\ UNCHANGED <<vars, tid>>
TReject == /\ l <= Len(Trace) /\ Ev.ev = "idents" /\ Reason(Ev) # 0
           /\ PrintT(<<"REJECT", tid, l, Reason(Ev)>>)
           /\ l' = l + 1 /\ UNCHANGED <<vars, tid>>
TNext == Reset \/ TJudge \/ TReject
Consumed == TLCGet("stats").diameter - 1 = Len(Trace)
====
