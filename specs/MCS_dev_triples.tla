---- MODULE MCS_dev_triples ----
EXTENDS MCSchema
Space == SDevTriples(0)
====
