---- MODULE MCS_aug_pair ----
EXTENDS MCSchema
Space == SAugPair(0)
====
