------------------------------- MODULE Hazard -------------------------------
(***************************************************************************)
(* C01.  The loader and resolver as a total machine: Load(text), Process   *)
(* and Query are always enabled and each ends in Ok or Err - there is no   *)
(* crash state and no state without a successor before `done`.  What the   *)
(* specification contributes is the INPUT SPACE: a module set built so     *)
(* that every kind of reference the resolvers follow (typedef -> typedef,  *)
(* uses -> grouping, identity -> base, include, import, augment and        *)
(* deviation targets, leafref paths, ...) is, per dimension, absent,       *)
(* benign, self-referential, part of a 2- or 3-cycle, dangling or aimed at *)
(* a node of the wrong kind; a program deviates from the benign default in *)
(* at most MaxHazards dimensions.  The harness renders each program, runs  *)
(* the real library in an isolated process with a time limit and maps      *)
(* every call to Ok / Err; a crash or a timeout has no counterpart here.   *)
(***************************************************************************)
EXTENDS Naturals, Sequences, FiniteSets, TLC, Json
CONSTANTS Dims,        \* function: dimension -> set of non-default values
          DimSeq,      \* the dimensions in a fixed order
          MaxHazards

VARIABLES prog,   \* set of [dim, val]: the dimensions that deviate from the default
          pc,     \* pick | load | process | query | done
          results \* sequence of outcomes, each "Ok" or "Err"
vars == <<prog, pc, results>>

\* programs are built one hazard per step, dimensions in the fixed order DimSeq, so that every
\* set of at most MaxHazards hazards is reached exactly once (no huge set is ever constructed)
Idx(d) == CHOOSE k \in 1..Len(DimSeq) : DimSeq[k] = d
MaxIdx == IF prog = {} THEN 0 ELSE CHOOSE k \in {Idx(h.dim) : h \in prog} : \A j \in {Idx(h.dim) : h \in prog} : j <= k
Valid(S) == /\ \A h \in S : h.val \in Dims[h.dim]
            /\ \A a, b \in S : a.dim = b.dim => a = b

Init == prog = {} /\ pc = "pick" /\ results = <<>>
AddHazard == /\ pc = "pick" /\ Cardinality(prog) < MaxHazards
             /\ \E k \in (MaxIdx + 1)..Len(DimSeq) : \E v \in Dims[DimSeq[k]] :
                  prog' = prog \cup {[dim |-> DimSeq[k], val |-> v]}
             /\ UNCHANGED <<pc, results>>
Pick == pc = "pick" /\ pc' = "load" /\ UNCHANGED <<prog, results>>
Step(from, to) == /\ pc = from /\ pc' = to
                  /\ \E r \in {"Ok", "Err"} : results' = Append(results, r)
                  /\ UNCHANGED prog
Next == AddHazard \/ Pick \/ Step("load", "process") \/ Step("process", "query") \/ Step("query", "done")
Spec == Init /\ [][Next]_vars /\ WF_vars(Next)

TypeOK == Valid(prog) /\ \A k \in 1..Len(results) : results[k] \in {"Ok", "Err"}
Termination == <>(pc = "done")
\* C16, third clause: for a program with exactly one hazard of the listed kinds, the keyword of the
\* statement every positioned resolve-time error must name (DESIGN.md D.3); "" = only the general
\* rule applies (a position in an error is the start of some statement of that file)
BlameOf(h) ==
  CASE h.dim \in {"td1", "td2", "td3"} /\ h.val \in {"nosuch", "foreign-absent", "foreign-unknown-prefix", "self", "t1", "t2", "t3"} -> "type"
    [] h.dim = "gr1" /\ h.val \in {"nosuch", "foreign-absent"} -> "uses"
    [] h.dim = "range" /\ h.val \in {"bad-syntax", "descending", "outside-parent", "dec-bad-syntax", "dec-too-precise", "dec-outside-parent",
                                       "dec-derived-outside", "above-the-type", "below-the-type"} -> "range"
    [] h.dim = "range" /\ h.val \in {"beyond-the-last-part", "in-a-gap", "length-descending"} -> "length"
    [] h.dim = "enumx" /\ h.val \in {"duplicate-name", "huge-value", "value-not-a-number"} -> "enum"
    [] h.dim = "union" /\ h.val = "of-cyclic-typedef" -> ""
    [] OTHER -> ""
Blame == IF Cardinality(prog) = 1 THEN BlameOf(CHOOSE h \in prog : TRUE) ELSE ""
\* one case per program
Export == pc # "load" \/ PrintT(<<"CASE", ToJson([hazards |-> prog, blame |-> Blame])>>)
=============================================================================
