------------------------------- MODULE Hazard -------------------------------
(***************************************************************************)
(* C01.  The loader and resolver as a total machine: Load(text), Process   *)
(* and Query are always enabled and each ends in Ok or Err - there is no   *)
(* crash state and no state without a successor before `done`.  What the   *)
(* specification contributes is the INPUT SPACE: a module set built so     *)
(* that every kind of reference the resolvers follow (typedef -> typedef,  *)
(* uses -> grouping, identity -> base, include, import, augment and        *)
(* deviation targets, leafref paths, ...) is, per dimension, absent,       *)
(* benign, self-referential, part of a 2- or 3-cycle, dangling or aimed at *)
(* a node of the wrong kind; a program deviates from the benign default in *)
(* at most MaxHazards dimensions.  The harness renders each program, runs  *)
(* the real library in an isolated process with a time limit and maps      *)
(* every call to Ok / Err; a crash or a timeout has no counterpart here.   *)
(***************************************************************************)
EXTENDS Naturals, Sequences, FiniteSets, TLC, Json
CONSTANTS Dims,        \* function: dimension -> set of non-default values
          MaxHazards

VARIABLES prog,   \* set of [dim, val]: the dimensions that deviate from the default
          pc,     \* pick | load | process | query | done
          results \* sequence of outcomes, each "Ok" or "Err"
vars == <<prog, pc, results>>

Choices == {[dim |-> d, val |-> v] : d \in DOMAIN Dims, v \in UNION {Dims[x] : x \in DOMAIN Dims}}
Valid(S) == /\ \A h \in S : h.val \in Dims[h.dim]
            /\ \A a, b \in S : a.dim = b.dim => a = b
RECURSIVE Subsets(_, _)
\* all valid hazard sets of size <= n, built incrementally (SUBSET Choices is far too large)
Subsets(n, acc) == IF n = 0 THEN acc
                   ELSE Subsets(n - 1, acc \cup {S \cup {h} : S \in acc, h \in {x \in Choices : x.val \in Dims[x.dim]}})
Programs == {S \in Subsets(MaxHazards, {{}}) : Valid(S)}

Init == prog = {} /\ pc = "pick" /\ results = <<>>
Pick == pc = "pick" /\ prog' \in Programs /\ pc' = "load" /\ UNCHANGED results
Step(from, to) == /\ pc = from /\ pc' = to
                  /\ \E r \in {"Ok", "Err"} : results' = Append(results, r)
                  /\ UNCHANGED prog
Next == Pick \/ Step("load", "process") \/ Step("process", "query") \/ Step("query", "done")
Spec == Init /\ [][Next]_vars /\ WF_vars(Next)

TypeOK == \A k \in 1..Len(results) : results[k] \in {"Ok", "Err"}
Termination == <>(pc = "done")
\* one case per program
Export == pc # "load" \/ PrintT(<<"CASE", ToJson([hazards |-> prog])>>)
=============================================================================
