---- MODULE MCS_dev1 ----
EXTENDS MCSchema
Space == SDev1F(0)
====
