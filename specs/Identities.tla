----------------------------- MODULE Identities -----------------------------
(***************************************************************************)
(* C11.  Identity derivation.  Identities sit in fixed slots (module a,    *)
(* its submodule as, module b which a imports; c imports both); a program  *)
(* says which slots are present and which bases each names.  The machine   *)
(* follows the code: build the dictionary keyed module:name (submodule     *)
(* identities hoisted to the owner), visit the identities in an arbitrary  *)
(* order appending each to the direct-children list of its bases, then     *)
(* close every list depth first with a visited set and sort it by name,    *)
(* then module.  Declaratively, Values(i) is the set of identities that    *)
(* reach i through one or more base steps.                                 *)
(***************************************************************************)
EXTENDS Naturals, Sequences, FiniteSets, TLC, Json, SequencesExt
CONSTANTS Programs

VARIABLES prog,      \* set of identities [key, home, bases]; a base is a key or UNDEF
          pc,        \* pick | direct | done
          todo,      \* identities whose base statements are still to be visited
          children,  \* key -> sequence of direct children, in the order visited
          values,    \* key -> the reported sequence
          err
vars == <<prog, pc, todo, children, values, err>>

UNDEF == <<"?", "nosuch">>
Keys == {i.key : i \in prog}
ById(k) == CHOOSE i \in prog : i.key = k

\* ---- declarative: reachability by relational composition ---------------------
Direct == {z \in Keys \X Keys : z[2] \in ById(z[1]).bases}          \* (derived, base)
Step(R) == R \cup {z \in Keys \X Keys : \E mid \in Keys : <<z[1], mid>> \in R /\ <<mid, z[2]>> \in R}
RECURSIVE Close(_, _)
Close(R, n) == IF n = 0 THEN R ELSE Close(Step(R), n - 1)
Plus == Close(Direct, Cardinality(Keys))
Cyclic == \E k \in Keys : <<k, k>> \in Plus
Undefined == \E i \in prog : \E b \in i.bases : b \notin Keys
ValueSet(k) == {d \in Keys : <<d, k>> \in Plus}

\* ---- declarative, second formulation: breadth-first search over "is derived from" ------
\* (parameterised by the identity set: IdentitiesTrace judges recorded programs of 20-30
\* identities with it, where the relational closure above would be too slow)
KeysOf(P) == {i.key : i \in P}
DerivedFrom(P, S) == {i.key : i \in {j \in P : j.bases \cap S # {}}}
RECURSIVE Reach(_, _, _)
Reach(P, frontier, acc) == LET nx == DerivedFrom(P, frontier) \ acc IN IF nx = {} THEN acc ELSE Reach(P, nx, acc \cup nx)
ValueSetOf(P, k) == Reach(P, {k}, {})                 \* contains k itself exactly when k lies on a cycle
CyclicOf(P) == \E k \in KeysOf(P) : k \in ValueSetOf(P, k)
UndefinedOf(P) == \E i \in P : \E b \in i.bases : b \notin KeysOf(P)

\* ---- operational ------------------------------------------------------------------
\* depth-first closure of the children lists with a visited list
RECURSIVE AddChildren(_, _, _)
AddChildren(ch, ks, acc) ==       \* ks: sequence of keys to add with their descendants
  IF ks = <<>> THEN acc
  ELSE LET k == Head(ks) IN
       IF \E j \in 1..Len(acc) : acc[j] = k THEN AddChildren(ch, Tail(ks), acc)
       ELSE AddChildren(ch, Tail(ks), AddChildren(ch, ch[k], Append(acc, k)))
KeyLess(a, b) == \* by name, then module; both are short strings compared through a fixed order
  LET ord(s) == CASE s = "a" -> 1 [] s = "b" -> 2 [] s = "c" -> 3 [] s = "x" -> 4 [] s = "y" -> 5 [] s = "z" -> 6 [] OTHER -> 9
  IN ord(a[2]) < ord(b[2]) \/ (a[2] = b[2] /\ ord(a[1]) < ord(b[1]))
RECURSIVE Ins(_, _), SortK(_)
Ins(x, s) == IF s = <<>> THEN <<x>> ELSE IF KeyLess(x, Head(s)) THEN <<x>> \o s ELSE <<Head(s)>> \o Ins(x, Tail(s))
SortK(s) == IF s = <<>> THEN <<>> ELSE Ins(Head(s), SortK(Tail(s)))

Init == prog = {} /\ pc = "pick" /\ todo = {} /\ children = << >> /\ values = << >> /\ err = FALSE
Pick == /\ pc = "pick" /\ prog' \in Programs /\ pc' = "direct"
        /\ todo' = {i.key : i \in prog'} /\ children' = [k \in {i.key : i \in prog'} |-> <<>>]
        /\ UNCHANGED <<values, err>>
\* the base statements of one identity (the dictionary is a Go map: any order)
Visit == /\ pc = "direct" /\ todo # {}
         /\ \E k \in todo :
              LET i == ById(k) IN
              /\ children' = [b \in Keys |-> IF b \in i.bases THEN Append(children[b], k) ELSE children[b]]
              /\ err' = (err \/ \E b \in i.bases : b \notin Keys)
              /\ todo' = todo \ {k}
         /\ UNCHANGED <<prog, pc, values>>
Finish == /\ pc = "direct" /\ todo = {}
          /\ LET closed == [k \in Keys |-> AddChildren(children, children[k], <<>>)] IN
             /\ values' = [k \in Keys |-> SortK(closed[k])]
             /\ err' = (err \/ \E k \in Keys : \E j \in 1..Len(closed[k]) : closed[k][j] = k)      \* an identity derived from itself
          /\ pc' = "done" /\ UNCHANGED <<prog, todo, children>>
Next == Pick \/ Visit \/ Finish
Spec == Init /\ [][Next]_vars /\ WF_vars(Next)

\* ---- properties ----------------------------------------------------------------------
Done == pc = "done"
Rng(s) == {s[j] : j \in 1..Len(s)}
ErrRight == Done => (err <=> (Undefined \/ Cyclic))
Exactly == (Done /\ ~err) => \A k \in Keys : Rng(values[k]) = ValueSet(k)
Once == (Done /\ ~err) => \A k \in Keys : Cardinality(Rng(values[k])) = Len(values[k])
NotSelf == (Done /\ ~err) => \A k \in Keys : k \notin Rng(values[k])
Transitive == (Done /\ ~err) => \A x, y \in Keys : y \in Rng(values[x]) => Rng(values[y]) \subseteq Rng(values[x])
\* the sequence is a function of the schema: the sorted value set, whatever order the dictionary was visited in
FixedOrder == (Done /\ ~err) => \A k \in Keys : values[k] = SortK(SetToSeq(ValueSet(k)))
\* the two declarative formulations say the same
ReachAgrees == pc = "done" => /\ Cyclic = CyclicOf(prog) /\ Undefined = UndefinedOf(prog)
                              /\ \A k \in Keys : ValueSet(k) = ValueSetOf(prog, k)
Termination == <>(pc = "done")
Export == ~Done \/ PrintT(<<"CASE", ToJson([ids |-> prog, err |-> err,
             values |-> IF err THEN {} ELSE {[key |-> k, vals |-> values[k]] : k \in Keys}])>>)
View == <<prog, pc, todo, children, values, err>>
=============================================================================
