---- MODULE MCS_aug_sub_quick ----
EXTENDS MCSchema
Space == SAugSubQuick(0)
====
