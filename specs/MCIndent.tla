---- MODULE MCIndent ----
EXTENDS Indent
MCPfx == { <<>>, <<">">>, <<">", ">">> }
MCPfx2 == { <<>>, <<">">>, <<">", ">">>, <<"a", "N">> }
====
