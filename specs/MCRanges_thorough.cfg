CONSTANTS
  Points <- MCChainPoints
  ChainPoints <- MCChainPoints
  Parents <- MCParents
  MaxParts = 3
  MaxChain = 1
  Toks <- MCToks
  MaxToks = 5
INIT Init
NEXT Next
INVARIANTS Sound Narrowing SyntaxOK Export
CHECK_DEADLOCK FALSE
