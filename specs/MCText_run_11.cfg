CONSTANTS
  LF <- cLF
  TAB <- cTAB
  CR <- cCR
  DQ <- cDQ
  SQ <- cSQ
  BS <- cBS
  Alphabet <- RunAlphabet
  MaxLen = 11
  Prefix <- cRunPrefix
  Suffix <- cNoPrefix
  PatternKw <- cPattern
INIT Init
NEXT Next
INVARIANTS PosOK ColIsCharCount ShadowAgrees RejectEmpty StmtPosInText Export
CHECK_DEADLOCK FALSE
