CONSTANTS
  Descs <- MCDescs
  MaxLoads = 5
  ImportRevs <- MCImportRevs
  Layouts <- MCLayoutsFull
  Wanted <- MCWanted
INIT Init
NEXT Next
INVARIANTS OrderIndependent LatestWins DupRejected Chooser Export
CHECK_DEADLOCK FALSE
