CONSTANTS
  Procs <- MCP2
  Programs <- MC2
INIT Init
NEXT Next
INVARIANTS Mutex NoDeadlock Export
CHECK_DEADLOCK FALSE
