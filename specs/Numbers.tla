------------------------------ MODULE Numbers ------------------------------
(***************************************************************************)
(* C15. yang.Number as exact decimal arithmetic.  TLC integers are 32 bit, *)
(* so a number is (neg, mag, fd) with mag a canonical digit sequence (no   *)
(* leading zero; zero is <<0>>); the value is (-1)^neg * mag * 10^-fd.     *)
(* Compare, print, parse and narrow are operations on digit sequences.     *)
(* One action per library operation; results are exported for replay and   *)
(* recorded results are judged by NumbersTrace.                            *)
(***************************************************************************)
EXTENDS Naturals, Sequences, FiniteSets, TLC, Json
CONSTANTS Mags,     \* magnitudes explored (canonical digit sequences)
          FDs,      \* fraction-digit settings explored
          Signs,    \* literal signs: "", "+", "-"
          U64MAX, I64MAX, I64MINABS   \* digit sequences of 2^64-1, 2^63-1, 2^63

VARIABLES op,   \* the operation performed: "init" | "cmp" | "unary" | "parse"
          a, b, \* operands
          lit,  \* literal [sign, ip, fp, fd]
          res   \* result of the operation
vars == <<op, a, b, lit, res>>

\* ---- digit-sequence arithmetic ---------------------------------------------
RECURSIVE LexLess(_, _)
LexLess(x, y) == IF x = <<>> THEN FALSE
                 ELSE IF Head(x) # Head(y) THEN Head(x) < Head(y) ELSE LexLess(Tail(x), Tail(y))
MagLess(x, y) == Len(x) < Len(y) \/ (Len(x) = Len(y) /\ LexLess(x, y))     \* canonical sequences
Zeros(n) == [k \in 1..n |-> 0]
IsZero(x) == x = <<0>>
RECURSIVE Canon(_)
Canon(x) == IF Len(x) > 1 /\ Head(x) = 0 THEN Canon(Tail(x)) ELSE x         \* strip leading zeros
Scale(x, n) == IF IsZero(x) THEN x ELSE x \o Zeros(n)                      \* x * 10^n

\* ---- order: align both to 18 fraction digits; minus zero is zero ------------
Aligned(n) == Scale(n.mag, 18 - n.fd)
IsNeg(n) == n.neg /\ ~IsZero(n.mag)
ValLess(n, m) ==
  IF IsNeg(n) /\ ~IsNeg(m) THEN TRUE
  ELSE IF ~IsNeg(n) /\ IsNeg(m) THEN FALSE
  ELSE IF IsNeg(n) THEN MagLess(Aligned(m), Aligned(n)) ELSE MagLess(Aligned(n), Aligned(m))
ValEq(n, m) == IsNeg(n) = IsNeg(m) /\ Aligned(n) = Aligned(m)

\* ---- printing: a point fd places from the right, at least one integer digit --
Str(n) ==
  LET d == IF Len(n.mag) <= n.fd THEN Zeros(n.fd + 1 - Len(n.mag)) \o n.mag ELSE n.mag
  IN [neg |-> n.neg, ip |-> SubSeq(d, 1, Len(d) - n.fd), fp |-> SubSeq(d, Len(d) - n.fd + 1, Len(d))]

\* ---- narrowing to a signed 64-bit integer: exact or an error ----------------
ToInt(n) == IF n.fd # 0 THEN [ok |-> FALSE]
            ELSE IF IsNeg(n) THEN (IF MagLess(I64MINABS, n.mag) THEN [ok |-> FALSE] ELSE [ok |-> TRUE, neg |-> TRUE, mag |-> n.mag])
            ELSE IF MagLess(I64MAX, n.mag) THEN [ok |-> FALSE] ELSE [ok |-> TRUE, neg |-> FALSE, mag |-> n.mag]

\* ---- parsing [sign] ip [. fp] at precision fd --------------------------------
\* a decimal64 mantissa is a signed 64-bit integer; an integer has a 64-bit magnitude
\* what does not fit the precision is a NUMBER: fraction digits beyond fd that are all zero denote nothing ("1.50" at
\* one fraction digit is 1.5)
FitFrac(fp, fd) == IF Len(fp) > fd /\ \A k \in (fd + 1)..Len(fp) : fp[k] = 0 THEN SubSeq(fp, 1, fd) ELSE fp
ParseDec(s, ip, fp0, fd) ==
  LET fp == FitFrac(fp0, fd) IN
  IF Len(fp) > fd THEN [ok |-> FALSE]
  ELSE LET m == Canon(ip \o fp \o Zeros(fd - Len(fp)))
           neg == s = "-"
       IN IF (neg /\ MagLess(I64MINABS, m)) \/ (~neg /\ MagLess(I64MAX, m)) THEN [ok |-> FALSE]
          ELSE [ok |-> TRUE, neg |-> neg, mag |-> m, fd |-> fd]
ParseInt(s, ip) ==
  IF MagLess(U64MAX, ip) THEN [ok |-> FALSE] ELSE [ok |-> TRUE, neg |-> s = "-", mag |-> ip, fd |-> 0]

\* ---- the stated domain --------------------------------------------------------
InDomain(n) == IF n.fd = 0 THEN ~MagLess(U64MAX, n.mag)
               ELSE IF n.neg THEN ~MagLess(I64MINABS, n.mag) ELSE ~MagLess(I64MAX, n.mag)
Num == {n \in [neg : BOOLEAN, mag : Mags, fd : FDs] : InDomain(n)}

Init == op = "init" /\ a = 0 /\ b = 0 /\ lit = 0 /\ res = 0
Cmp == /\ op = "init" /\ op' = "cmp"
       /\ \E x \in Num, y \in Num :
            /\ a' = x /\ b' = y
            /\ res' = [less |-> ValLess(x, y), eq |-> ValEq(x, y)]
       /\ UNCHANGED lit
Unary == /\ op = "init" /\ op' = "unary"
         /\ \E x \in Num : a' = x /\ res' = [str |-> Str(x), int |-> ToInt(x)]
         /\ UNCHANGED <<b, lit>>
\* literals: every magnitude split at every point, every sign, every precision
Parse == /\ op = "init" /\ op' = "parse"
         /\ \E m \in Mags, s \in Signs, fd \in FDs : \E k \in 0..Len(m) :
              LET ip == IF k = Len(m) THEN <<0>> ELSE SubSeq(m, 1, Len(m) - k)
                  fp == SubSeq(m, Len(m) - k + 1, Len(m))
              IN /\ lit' = [sign |-> s, ip |-> ip, fp |-> fp, fd |-> fd]
                 /\ res' = IF fd = 0 THEN (IF k = 0 THEN ParseInt(s, ip) ELSE [ok |-> FALSE])
                           ELSE ParseDec(s, ip, fp, fd)
         /\ UNCHANGED <<a, b>>
\* literals with a very long fraction part (more than 255 digits): they never fit a precision of at most 18
LongLits == { [ip |-> <<0>>, fp |-> Zeros(255) \o <<1>>], [ip |-> <<1>>, fp |-> Zeros(256)], [ip |-> <<1,2>>, fp |-> Zeros(299) \o <<5>>],
              [ip |-> <<7>>, fp |-> Zeros(19)], [ip |-> <<0>>, fp |-> Zeros(18) \o <<1>>] }
ParseLong == /\ op = "init" /\ op' = "parse"
             /\ \E x \in LongLits, s \in Signs, fd \in FDs \ {0} :
                  /\ lit' = [sign |-> s, ip |-> x.ip, fp |-> x.fp, fd |-> fd]
                  /\ res' = ParseDec(s, x.ip, x.fp, fd)
             /\ UNCHANGED <<a, b>>
\* what a literal denotes at a precision does not depend on what was parsed before.  The pairs taken here are adjacent as
\* TEXTS: the second literal is the first followed by the first digit of the first precision, parsed at the precision that
\* is the last digit of the first ("1.1" at 12, then "1.11" at 2) - whoever remembers results by the two written next to each
\* other confuses them
AfterMags == { <<1, 1>>, <<5>>, <<7, 5>>, <<1, 2, 0>>, <<9, 9>> }
ParseAfter == /\ op = "init" /\ op' = "parse"
              /\ \E m \in AfterMags, s \in Signs, f1 \in {11, 12, 17, 18} : \E k \in 0..Len(m) :
                   LET ip == IF k = Len(m) THEN <<0>> ELSE SubSeq(m, 1, Len(m) - k)
                       fp1 == SubSeq(m, Len(m) - k + 1, Len(m))
                       fp2 == fp1 \o << f1 \div 10 >>
                       fd2 == f1 % 10
                   IN /\ lit' = [sign |-> s, ip |-> ip, fp |-> fp2, fd |-> fd2, before |-> [ip |-> ip, fp |-> fp1, fd |-> f1]]
                      /\ res' = ParseDec(s, ip, fp2, fd2)
              /\ UNCHANGED <<a, b>>
Next == Cmp \/ Unary \/ Parse \/ ParseLong \/ ParseAfter
Spec == Init /\ [][Next]_vars

\* ---- laws checked on the model itself ------------------------------------------
Trichotomy == op = "cmp" =>
   \/ (ValLess(a, b) /\ ~ValLess(b, a) /\ ~ValEq(a, b))
   \/ (ValLess(b, a) /\ ~ValLess(a, b) /\ ~ValEq(a, b))
   \/ (ValEq(a, b) /\ ~ValLess(a, b) /\ ~ValLess(b, a))
Symmetric == op = "cmp" => (ValEq(a, b) <=> ValEq(b, a))
Irreflexive == op \in {"cmp", "unary"} => ~ValLess(a, a) /\ ValEq(a, a)
\* printing then parsing at the same precision gives an equal number
PrintParse == op = "unary" =>
   LET s == Str(a)
       back == IF a.fd = 0 THEN ParseInt(IF a.neg THEN "-" ELSE "", s.ip)
               ELSE ParseDec(IF a.neg THEN "-" ELSE "", s.ip, s.fp, a.fd)
   IN back.ok /\ ValEq([neg |-> back.neg, mag |-> back.mag, fd |-> back.fd], a)
\* narrowing is exact
IntExact == op = "unary" /\ res.int.ok => ValEq([neg |-> res.int.neg, mag |-> res.int.mag, fd |-> 0], a)
\* a parsed literal denotes ip.fp exactly
\* (zero digits beyond the precision dropped first: they do not change the number, and the order aligns at 18 digits)
ParseExact == op = "parse" /\ res.ok =>
   LET f == FitFrac(lit.fp, res.fd) IN
   ValEq([neg |-> res.neg, mag |-> res.mag, fd |-> res.fd],
         [neg |-> lit.sign = "-", mag |-> Canon(lit.ip \o f), fd |-> Len(f)])
Export == op = "init" \/ PrintT(<<"CASE", ToJson([op |-> op, a |-> a, b |-> b, lit |-> lit, res |-> res])>>)
=============================================================================
