INIT TInit
NEXT TNext
POSTCONDITION Consumed
CHECK_DEADLOCK FALSE
