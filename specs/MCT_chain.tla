---- MODULE MCT_chain ----
EXTENDS MCTypes
Space == SChain({"all", "none", "units", "pat"})
====
