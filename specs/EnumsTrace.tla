---- MODULE EnumsTrace ----
(* Direction B for C14: recorded Set / SetNext calls on the real EnumType  *)
(* (and enumeration / bits types resolved by Process), with 64-bit values  *)
(* rank-compressed by the harness (order and adjacency preserved).         *)
EXTENDS Enums, IOUtils
Trace == ndJsonDeserialize(IOEnv.TRACE)
VARIABLES l, tid, rejected, mn, mx, uniq
tvars == <<vars, l, tid, rejected, mn, mx, uniq>>
Ev == Trace[l]
TInit == /\ l = 1 /\ tid = 0 /\ rejected = FALSE /\ mn = 0 /\ mx = 0 /\ uniq = TRUE
         /\ ops = <<>> /\ members = <<>> /\ hi = NONE /\ oks = <<>>
Reset == /\ l <= Len(Trace) /\ Ev.ev = "reset"
         /\ mn' = Ev.min /\ mx' = Ev.max /\ uniq' = Ev.uniq /\ tid' = Ev.tid
         /\ ops' = <<>> /\ members' = <<>> /\ hi' = NONE /\ oks' = <<>>
         /\ rejected' = FALSE /\ l' = l + 1
\* a member statement: name, val (NONE when implicit), ok as observed
MemberOK(e) == Step(members, hi, e.name, e.val, mn, mx, uniq).ok = e.ok
TMember == /\ l <= Len(Trace) /\ Ev.ev = "member" /\ ~rejected /\ MemberOK(Ev)
           /\ LET s == Step(members, hi, Ev.name, Ev.val, mn, mx, uniq) IN
              /\ members' = IF s.ok THEN Append(members, [name |-> Ev.name, val |-> s.val]) ELSE members
              /\ hi' = IF s.ok /\ (hi = NONE \/ s.val > hi) THEN s.val ELSE hi
              /\ ops' = Append(ops, [name |-> Ev.name, val |-> Ev.val]) /\ oks' = Append(oks, s.ok)
           /\ l' = l + 1 /\ UNCHANGED <<tid, rejected, mn, mx, uniq>>
\* the observable views: name->value pairs and value->name pairs
Pairs == {<<members[k].name, members[k].val>> : k \in 1..Len(members)}
ViewOK(e) ==
  /\ {<<e.names[i][1], e.names[i][2]>> : i \in 1..Len(e.names)} = Pairs
  /\ uniq => {<<e.values[i][2], e.values[i][1]>> : i \in 1..Len(e.values)} = Pairs
  /\ ~uniq => \A i \in 1..Len(e.values) : <<e.values[i][2], e.values[i][1]>> \in Pairs
TView == /\ l <= Len(Trace) /\ Ev.ev = "view" /\ ~rejected /\ ViewOK(Ev)
         /\ l' = l + 1 /\ UNCHANGED <<vars, tid, rejected, mn, mx, uniq>>
\* a type rejected as a whole by Process: some member must be rejected by the specification
RECURSIVE AllAccepted(_, _, _)
AllAccepted(ms, h, seq) ==
  IF seq = <<>> THEN TRUE
  ELSE LET s == Step(ms, h, seq[1][1], seq[1][2], mn, mx, uniq) IN
       s.ok /\ AllAccepted(Append(ms, [name |-> seq[1][1], val |-> s.val]),
                            IF h = NONE \/ s.val > h THEN s.val ELSE h, Tail(seq))
RejectedOK(e) == ~AllAccepted(<<>>, NONE, e.members)
TRejected == /\ l <= Len(Trace) /\ Ev.ev = "rejected" /\ ~rejected /\ RejectedOK(Ev)
             /\ l' = l + 1 /\ UNCHANGED <<vars, tid, rejected, mn, mx, uniq>>
TReject == /\ l <= Len(Trace) /\ ~rejected
           /\ \/ Ev.ev = "member" /\ ~MemberOK(Ev)
              \/ Ev.ev = "view" /\ ~ViewOK(Ev)
              \/ Ev.ev = "rejected" /\ ~RejectedOK(Ev)
           /\ PrintT(<<"REJECT", tid, l>>)
           /\ rejected' = TRUE /\ l' = l + 1 /\ UNCHANGED <<vars, tid, mn, mx, uniq>>
TSkip == /\ l <= Len(Trace) /\ Ev.ev # "reset" /\ rejected
         /\ l' = l + 1 /\ UNCHANGED <<vars, tid, rejected, mn, mx, uniq>>
TNext == Reset \/ TMember \/ TView \/ TRejected \/ TReject \/ TSkip
Consumed == TLCGet("stats").diameter - 1 = Len(Trace)
\* the declarative invariants on every state of the real execution
TNamesUnique == ~rejected => NamesUnique
TValsUnique == (~rejected /\ uniq) => \A a, b \in 1..Len(members) : a # b => members[a].val # members[b].val
TInRange == ~rejected => \A k \in 1..Len(members) : members[k].val >= mn /\ members[k].val <= mx
====
