---- MODULE NumbersTrace ----
(* Direction B for C15: recorded results of Less / Equal / String / Int /   *)
(* ParseInt / ParseDecimal on random 64-bit numbers, as digit sequences,    *)
(* judged by the exact arithmetic of Numbers.                               *)
EXTENDS Numbers, IOUtils
Trace == ndJsonDeserialize(IOEnv.TRACE)
VARIABLES l, tid, rejected
tvars == <<l, tid, rejected>>
Ev == Trace[l]
TInit == l = 1 /\ tid = 0 /\ rejected = FALSE /\ Init
Reset == /\ l <= Len(Trace) /\ Ev.ev = "reset" /\ tid' = Ev.tid /\ rejected' = FALSE /\ l' = l + 1 /\ UNCHANGED vars
\* the printed string as characters
DigitChar(d) == CASE d = 0 -> "0" [] d = 1 -> "1" [] d = 2 -> "2" [] d = 3 -> "3" [] d = 4 -> "4"
                  [] d = 5 -> "5" [] d = 6 -> "6" [] d = 7 -> "7" [] d = 8 -> "8" [] d = 9 -> "9"
RECURSIVE DigStr(_)
DigStr(ds) == IF ds = <<>> THEN "" ELSE DigitChar(Head(ds)) \o DigStr(Tail(ds))
Printed(n) == LET s == Str(n) IN
   (IF s.neg THEN "-" ELSE "") \o DigStr(s.ip) \o (IF s.fp = <<>> THEN "" ELSE "." \o DigStr(s.fp))
EvOK(e) ==
  CASE e.ev = "cmp" -> e.less = ValLess(e.a, e.b) /\ e.eq = ValEq(e.a, e.b)
    [] e.ev = "str" -> e.s = Printed(e.a)
    [] e.ev = "int" -> LET r == ToInt(e.a) IN
                       /\ e.ok = r.ok
                       /\ r.ok => (e.mag = r.mag /\ (e.neg = r.neg \/ IsZero(r.mag)))
    [] e.ev = "parse" -> LET r == IF e.fd = 0 THEN (IF e.fp = <<>> THEN ParseInt(e.sign, e.ip) ELSE [ok |-> FALSE])
                                  ELSE ParseDec(e.sign, e.ip, e.fp, e.fd) IN
                         /\ e.ok = r.ok
                         /\ r.ok => (e.r.mag = r.mag /\ e.r.fd = r.fd /\ (e.r.neg = r.neg \/ IsZero(r.mag)))
    [] OTHER -> FALSE
TStep == /\ l <= Len(Trace) /\ Ev.ev # "reset" /\ ~rejected /\ EvOK(Ev)
         /\ l' = l + 1 /\ UNCHANGED <<tid, rejected, vars>>
TReject == /\ l <= Len(Trace) /\ Ev.ev # "reset" /\ ~rejected /\ ~EvOK(Ev)
           /\ PrintT(<<"REJECT", tid, l>>)
           /\ rejected' = TRUE /\ l' = l + 1 /\ UNCHANGED <<tid, vars>>
TSkip == /\ l <= Len(Trace) /\ Ev.ev # "reset" /\ rejected /\ l' = l + 1 /\ UNCHANGED <<tid, rejected, vars>>
TNext == Reset \/ TStep \/ TReject \/ TSkip
MCU64 == <<1,8,4,4,6,7,4,4,0,7,3,7,0,9,5,5,1,6,1,5>>
MCI64 == <<9,2,2,3,3,7,2,0,3,6,8,5,4,7,7,5,8,0,7>>
MCI64M == <<9,2,2,3,3,7,2,0,3,6,8,5,4,7,7,5,8,0,8>>
Consumed == TLCGet("stats").diameter - 1 = Len(Trace)
====
