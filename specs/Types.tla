------------------------------- MODULE Types -------------------------------
(***************************************************************************)
(* C09.  Lexical binding of type names and inheritance along the           *)
(* derivation chain, over a fixed skeleton of typedef scopes:              *)
(*   module a { A0 | container c { C1 | container d { D2 } } |             *)
(*              list li { L1 } | grouping g { G1 } (used in container u) | *)
(*              rpc r { R1 | input { I2 } | output { O2 } } |              *)
(*              notification n { N1 } }  includes submodule as { S0 },     *)
(*   imports module b { B0 } which includes submodule bs { BS0 }.          *)
(* A program places typedefs (name, the spelling of their own base,        *)
(* attributes) at slots and a leaf with a type reference at a site.  The   *)
(* machine binds the reference, then follows the chain one typedef per     *)
(* step with a visited set (a cycle is an error), then folds the           *)
(* attributes: nearest definition wins, patterns accumulate.               *)
(***************************************************************************)
EXTENDS Naturals, Sequences, FiniteSets, TLC, Json
CONSTANTS Programs

VARIABLES prog,    \* [tds : set of typedefs, site, ref, leaf : attributes written on the leaf's type statement]
          pc,      \* pick | follow | done
          chain,   \* typedefs followed so far, nearest first
          next,    \* what the chain continues with: [kind |-> "ref", slot, ref] or [kind |-> "builtin", n] or none
          err
vars == <<prog, pc, chain, next, err>>

Slots == {"A0", "C1", "D2", "L1", "G1", "R1", "I2", "O2", "N1", "S0", "B0", "BS0"}
Builtins == {"string", "int32", "decimal64", "enumeration", "union", "leafref", "bits", "boolean"}
SlotParent(s) == CASE s = "D2" -> "C1" [] s \in {"C1", "L1", "G1", "R1", "N1"} -> "A0" [] s \in {"I2", "O2"} -> "R1" [] OTHER -> ""
SlotRoot(s) == CASE s = "S0" -> "as" [] s = "B0" -> "b" [] s = "BS0" -> "bs" [] OTHER -> "a"
TopSlot(r) == CASE r = "a" -> "A0" [] r = "as" -> "S0" [] r = "b" -> "B0" [] r = "bs" -> "BS0"
IncludeSlots(r) == CASE r = "a" -> <<"S0">> [] r = "b" -> <<"BS0">> [] OTHER -> <<>>
OwnerOf(r) == CASE r = "as" -> "a" [] r = "bs" -> "b" [] OTHER -> ""
OwnPfx(r) == CASE r \in {"a", "as"} -> "a" [] OTHER -> "b"
\* imports: a and as import b under the prefix b
Imported(r, p) == IF r \in {"a", "as"} /\ p = "b" THEN "b" ELSE ""
SiteHome(x) == CASE x = "ltop" -> "A0" [] x = "lc" -> "C1" [] x = "ld" -> "D2" [] x = "ll" -> "L1" [] x = "lg" -> "G1"
                 [] x = "li" -> "I2" [] x = "lo" -> "O2" [] x = "ln" -> "N1" [] x = "ls" -> "S0"
                 [] x = "la" -> "A0"      \* in the input of an action inside a grouping nobody uses (no typedefs of their own on the way up)

RECURSIVE Up(_)
Up(s) == IF s = "" THEN <<>> ELSE <<s>> \o Up(SlotParent(s))
\* where a reference written in scope `from` looks, in order (RFC 7950 5.1, 5.5, 6.4.1)
SearchChain(from, ref) ==
  LET r == SlotRoot(from) IN
  IF ref.p = "" \/ ref.p = OwnPfx(r) THEN
       Up(from) \o IncludeSlots(r)
       \o (IF OwnerOf(r) = "" THEN <<>> ELSE <<TopSlot(OwnerOf(r))>> \o IncludeSlots(OwnerOf(r)))
  ELSE IF Imported(r, ref.p) # "" THEN <<TopSlot(Imported(r, ref.p))>> \o IncludeSlots(Imported(r, ref.p))
  ELSE <<>>
At(tds, s, n) == {t \in tds : t.slot = s /\ t.name = n}
RECURSIVE FirstIn(_, _, _)
FirstIn(tds, ch, n) == IF ch = <<>> THEN [found |-> FALSE]
                       ELSE IF At(tds, Head(ch), n) # {} THEN [found |-> TRUE, td |-> CHOOSE t \in At(tds, Head(ch), n) : TRUE]
                       ELSE FirstIn(tds, Tail(ch), n)
Bind(tds, from, ref) ==
  IF ref.p = "" /\ ref.n \in Builtins THEN [kind |-> "builtin", n |-> ref.n]
  ELSE LET f == FirstIn(tds, SearchChain(from, ref), ref.n) IN
       IF f.found THEN [kind |-> "td", td |-> f.td] ELSE [kind |-> "none"]

\* every typedef of the program must resolve, used or not: does the chain from td fail?
RECURSIVE ChainErr(_, _, _)
ChainErr(tds, td, seen) ==
  LET b == Bind(tds, td.slot, td.base) IN
  CASE b.kind = "none" -> TRUE
    [] b.kind = "builtin" -> FALSE
    [] b.kind = "td" -> b.td \in seen \/ b.td = td \/ ChainErr(tds, b.td, seen \cup {td})
AnyTypedefErr == \E t \in prog.tds : ChainErr(prog.tds, t, {})

None == [kind |-> "none"]
Init == prog = << >> /\ pc = "pick" /\ chain = <<>> /\ next = None /\ err = FALSE
Pick == /\ pc = "pick" /\ prog' \in Programs /\ pc' = "follow"
        /\ next' = [kind |-> "ref", slot |-> SiteHome(prog'.site), ref |-> prog'.ref]
        /\ UNCHANGED <<chain, err>>
\* one step along the chain
Follow == /\ pc = "follow" /\ next.kind = "ref"
          /\ LET b == Bind(prog.tds, next.slot, next.ref) IN
             CASE b.kind = "none" -> err' = TRUE /\ pc' = "done" /\ UNCHANGED <<chain, next>>              \* unknown type
               [] b.kind = "builtin" -> next' = b /\ pc' = "done" /\ UNCHANGED <<chain, err>>
               [] b.kind = "td" ->
                    IF \E k \in 1..Len(chain) : chain[k] = b.td
                    THEN err' = TRUE /\ pc' = "done" /\ UNCHANGED <<chain, next>>                           \* cycle
                    ELSE /\ chain' = Append(chain, b.td)
                         /\ next' = [kind |-> "ref", slot |-> b.td.slot, ref |-> b.td.base]
                         /\ UNCHANGED <<pc, err>>
          /\ UNCHANGED prog
Next == Pick \/ Follow
Spec == Init /\ [][Next]_vars /\ WF_vars(Next)

\* ---- the resolved type: nearest definition wins, patterns accumulate from the base outwards ----
RECURSIVE Nearest(_, _)
Nearest(seq, fld) == IF seq = <<>> THEN "" ELSE IF seq[1][fld] # "" THEN seq[1][fld] ELSE Nearest(Tail(seq), fld)
Rev(s) == [k \in 1..Len(s) |-> s[Len(s) + 1 - k]]
RECURSIVE Dedup(_, _)
Dedup(s, seen) == IF s = <<>> THEN <<>> ELSE IF Head(s) \in seen THEN Dedup(Tail(s), seen) ELSE <<Head(s)>> \o Dedup(Tail(s), seen \cup {Head(s)})
Resolved ==
  LET levels == <<prog.leaf>> \o [k \in 1..Len(chain) |-> chain[k]]       \* nearest first: the leaf's own type statement, then the typedefs
      pats == Dedup(SelectSeq([k \in 1..Len(levels) |-> Rev(levels)[k].pat], LAMBDA p : p # ""), {})
  IN [kind |-> next.n,
      name |-> IF chain = <<>> THEN next.n ELSE chain[1].name,
      units |-> Nearest(Tail(levels), "units"),         \* units and default are typedef statements
      dflt |-> Nearest(Tail(levels), "dflt"),
      pats |-> IF next.n = "string" THEN pats ELSE <<>>,
      \* a sibling leaf of the same type that adds the pattern "sibling-pat" instead of the leaf's own pattern
      sibpats |-> IF next.n = "string"
                  THEN Dedup(SelectSeq([k \in 1..Len(chain) |-> Rev(chain)[k].pat], LAMBDA p : p # "") \o <<"sibling-pat">>, {})
                  ELSE <<>>,
      bound |-> IF chain = <<>> THEN "" ELSE chain[1].slot,
      \* union members: those written at the union, in order, equal members once
      members |-> IF next.n = "union" THEN Dedup(prog.members, {}) ELSE <<>>]

\* ---- declarative properties ---------------------------------------------------------
Done == pc = "done"
\* the bound typedef is the one in the nearest scope holding the name (no nearer scope holds it)
Lexical == (Done /\ chain # <<>>) =>
   LET ch == SearchChain(SiteHome(prog.site), prog.ref) IN
   \E k \in 1..Len(ch) : ch[k] = chain[1].slot /\ \A j \in 1..(k-1) : At(prog.tds, ch[j], prog.ref.n) = {}
\* a foreign prefix reaches only the imported module and its submodules
ForeignExact == (Done /\ chain # <<>> /\ prog.ref.p = "b" /\ prog.site # "ls") => chain[1].slot \in {"B0", "BS0"}
NoRepeat == \A a, b \in 1..Len(chain) : a # b => chain[a] # chain[b]
Termination == <>(pc = "done")
\* the leaf's own chain failing implies some typedef fails, except for a leaf naming an unknown type directly
ErrConsistent == (Done /\ err /\ chain # <<>>) => AnyTypedefErr
Export == ~Done \/ PrintT(<<"CASE", ToJson([prog |-> prog, err |-> err \/ AnyTypedefErr, type |-> IF err \/ AnyTypedefErr THEN << >> ELSE Resolved])>>)
=============================================================================
