---- MODULE MCTypes ----
EXTENDS Types
Q(p, n) == [p |-> p, n |-> n]
\* ---- the fixed skeleton of Types.tla is one instance of the general rules of TypesG.tla ----
G == INSTANCE TypesG
SlotSeq == <<"A0", "C1", "D2", "L1", "G1", "R1", "I2", "O2", "N1", "S0", "B0", "BS0">>
SlotIdx(s) == CHOOSE k \in 1..Len(SlotSeq) : SlotSeq[k] = s
K0 == [scopes |-> [k \in 1..Len(SlotSeq) |-> [parent |-> IF SlotParent(SlotSeq[k]) = "" THEN 0 ELSE SlotIdx(SlotParent(SlotSeq[k])),
                                              root |-> SlotRoot(SlotSeq[k])]],
       roots |-> << [name |-> "a", owner |-> "", pfx |-> "a", incs |-> <<"as">>, imps |-> <<[p |-> "b", mod |-> "b"]>>, top |-> SlotIdx("A0")],
                    [name |-> "as", owner |-> "a", pfx |-> "a", incs |-> <<>>, imps |-> <<[p |-> "b", mod |-> "b"]>>, top |-> SlotIdx("S0")],
                    [name |-> "b", owner |-> "", pfx |-> "b", incs |-> <<"bs">>, imps |-> <<>>, top |-> SlotIdx("B0")],
                    [name |-> "bs", owner |-> "b", pfx |-> "b", incs |-> <<>>, imps |-> <<>>, top |-> SlotIdx("BS0")] >>]
SkeletonAgrees ==
  \A s \in Slots : \A r \in {Q("", "t"), Q("a", "t"), Q("b", "t"), Q("zz", "t")} :
     LET c == SearchChain(s, r) IN [k \in 1..Len(c) |-> SlotIdx(c[k])] = G!GSearchChain(K0, SlotIdx(s), r)
ASSUME SkeletonAgrees
Td(slot, name, base, units, dflt, pat) == [slot |-> slot, name |-> name, base |-> base, units |-> units, dflt |-> dflt, pat |-> pat]
NoLeaf == [units |-> "", dflt |-> "", pat |-> ""]
Sites == {"ltop", "lc", "ld", "ll", "lg", "li", "lo", "ln", "ls", "la"}
\* S_bind: up to three typedefs named t (base string, units = the slot), every site, three spellings
Small == {S \in SUBSET Slots : Cardinality(S) <= 3}
SBind(dummy) ==
  { [tds |-> {Td(s, "t", Q("", "string"), s, "", "") : s \in S}, site |-> x, ref |-> r, leaf |-> NoLeaf, members |-> <<>>, via |-> "inline"] :
       S \in Small, x \in Sites, r \in {Q("", "t"), Q("a", "t"), Q("b", "t")} }
\* S_same: a typedef t of module a derived from the typedef of the SAME name in the imported module (or its submodule),
\* optionally shadowed by a third t in an inner scope; every site, two spellings
SSame(dummy) ==
  { [tds |-> {Td("A0", "t", Q("b", "t"), "A0", "", ""), Td(bs, "t", Q("", "string"), bs, "", "")}
             \cup (IF inner = "" THEN {} ELSE {Td(inner, "t", Q("a", "t"), inner, "", "")}),
     site |-> x, ref |-> r, leaf |-> NoLeaf, members |-> <<>>, via |-> "inline"] :
       bs \in {"B0", "BS0"}, inner \in {"", "C1", "G1"}, x \in Sites, r \in {Q("", "t"), Q("a", "t")} }
\* S_chain: leaf lc { type t } -> t -> u -> v -> string, with shadowing, foreign steps, cycles, an unknown base
Att(name, k) == CASE k = "all" -> [units |-> name \o "-units", dflt |-> name \o "-dflt", pat |-> name \o "-pat"]
                  [] k = "none" -> [units |-> "", dflt |-> "", pat |-> ""]
                  [] k = "units" -> [units |-> name \o "-units", dflt |-> "", pat |-> ""]
                  [] k = "pat" -> [units |-> "", dflt |-> "", pat |-> "shared-pat"]
TdA(slot, name, base, k) == LET a == Att(name, k) IN Td(slot, name, base, a.units, a.dflt, a.pat)
SChain(AttKinds) ==
  { [tds |-> {TdA(ts, "t", tb, ta), TdA(us, "u", ub, ua), TdA("A0", "v", Q("", "string"), va)},
     site |-> "lc", ref |-> Q("", "t"), leaf |-> [units |-> "", dflt |-> "", pat |-> lp], members |-> <<>>, via |-> "inline"] :
       ts \in {"A0", "C1"}, tb \in {Q("", "string"), Q("", "u"), Q("b", "u"), Q("", "t"), Q("a", "u")},
       us \in {"A0", "C1", "B0", "BS0", "S0"}, ub \in {Q("", "string"), Q("", "v"), Q("", "t"), Q("", "nosuch"), Q("", "int32")},
       ta \in AttKinds, ua \in AttKinds, va \in AttKinds, lp \in {"", "leaf-pat", "shared-pat"} }
\* S_union: a union of two or three member types that differ in exactly one restriction (or not at all)
Mem(kind, attr) == [kind |-> kind, attr |-> attr]
Members == { Mem("leafref", "p1"), Mem("leafref", "p2"), Mem("bits", "a"), Mem("bits", "b"), Mem("enumeration", "a"), Mem("enumeration", "b"),
             Mem("string", "pat-x"), Mem("string", "pat-y"), Mem("int8", "1..5"), Mem("int8", "1..6"), Mem("string", ""), Mem("boolean", "") }
SUnion(dummy) ==
  { [tds |-> {}, site |-> "lc", ref |-> Q("", "union"), leaf |-> NoLeaf, members |-> ms, via |-> via] :
       ms \in {<<a, b>> : a \in Members, b \in Members} \cup {<<a, b, a>> : a \in Members, b \in Members},
       via \in {"inline", "typedef", "typedef2"} }
====
