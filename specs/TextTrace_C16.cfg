CONSTANTS
  LF <- cLF
  TAB <- cTAB
  CR <- cCR
  DQ <- cDQ
  SQ <- cSQ
  BS <- cBS
  Alphabet = {}
  MaxLen = 0
  Prefix <- cNoPrefix
  Suffix <- cNoPrefix
  PatternKw <- cPattern
  CheckForest = FALSE
  CheckPos = TRUE
INIT TInit
NEXT TNext
INVARIANTS TPosOK TColIsCharCount
POSTCONDITION Consumed
CHECK_DEADLOCK FALSE
