---- MODULE MCS_split ----
EXTENDS MCSchema
Space == SSplit(0)
\* the tree of m is the same for every partition
Unsplit == FlatOf(ModuleTree(SplitProg([k \in 1..4 |-> "m"], "flat").mods, "m").root, <<>>, "urn:m", FALSE, TRUE)
SplitInvariant == (pc = "order" /\ ~errs) => FlatOf(trees["m"], <<>>, "urn:m", FALSE, TRUE) = Unsplit
====
