---- MODULE MCS_uses_quick ----
EXTENDS MCSchema
Space == SUsesQuick(0)
====
