---- MODULE MCT_chain_quick ----
EXTENDS MCTypes
Space == SChain({"all", "none"})
====
