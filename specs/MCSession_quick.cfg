CONSTANTS
  Good <- MCGoodQuick
  Bad <- MCBad
  MaxOps = 5
  WithGet = FALSE
INIT Init
NEXT Next
INVARIANTS BatchEq Idempotent NamesUnique Export
PROPERTIES NoTrace
CHECK_DEADLOCK FALSE
