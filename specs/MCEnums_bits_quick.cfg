CONSTANTS
  Names = {"a", "b", "c"}
  Vals <- MCBitVals
  MinV = 0
  MaxV = 1000
  Unique = FALSE
  MaxLen = 3
  NONE = 7777
INIT Init
NEXT Next
INVARIANTS NamesUnique InRange HiIsMax Export
PROPERTIES ImplicitRule ExplicitRule
CHECK_DEADLOCK FALSE
