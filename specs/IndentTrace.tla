---- MODULE IndentTrace ----
(* Direction B for C20: recorded executions of the real indenting writer,   *)
(* one event per Write call, are stepped through Indent's definitions.      *)
(* Non-blocking: an unexplained event is reported and the trace skipped.    *)
EXTENDS Indent, IOUtils
Trace == ndJsonDeserialize(IOEnv.TRACE)
VARIABLES l, tid, rejected
tvars == <<vars, l, tid, rejected>>

TInit == /\ l = 1 /\ tid = 0 /\ rejected = FALSE
         /\ prefix = <<>> /\ fed = <<>> /\ sink = <<>> /\ lineOpen = FALSE /\ budget = INF
         /\ ret = [n |-> 0, err |-> FALSE] /\ failed = FALSE /\ hist = <<>>

Ev == Trace[l]
Reset == /\ l <= Len(Trace) /\ Ev.ev = "reset"
         /\ prefix' = Ev.prefix /\ fed' = <<>> /\ sink' = <<>> /\ lineOpen' = FALSE
         /\ budget' = INF /\ ret' = [n |-> 0, err |-> FALSE] /\ failed' = FALSE /\ hist' = <<>>
         /\ tid' = Ev.tid /\ rejected' = FALSE /\ l' = l + 1

\* the logged `accepted' is how many bytes the underlying writer took in this
\* call; everything else is decided by the specification
WriteOK(e) ==
  LET j == Joined(prefix, e.chunk, lineOpen)
      k == e.accepted
      short == k < Len(j)
      expN == IF short THEN CallerCount(j, k) ELSE Len(e.chunk)
  IN /\ k <= Len(j)
     /\ e.n = expN /\ e.err = short
     /\ e.sink = sink \o Bytes(j, k)

TWrite == /\ l <= Len(Trace) /\ Ev.ev = "write" /\ ~rejected /\ ~failed
          /\ WriteOK(Ev)
          /\ sink' = Ev.sink /\ failed' = Ev.err
          /\ ret' = [n |-> Ev.n, err |-> Ev.err]
          /\ lineOpen' = IF Ev.chunk = <<>> THEN lineOpen ELSE Ev.chunk[Len(Ev.chunk)] # NL
          /\ fed' = Append(fed, Ev.chunk)
          /\ UNCHANGED <<prefix, budget, hist, tid, rejected>> /\ l' = l + 1

\* the one-shot functions themselves: String / Bytes of the whole text
OneShotOK(e) == e.out = IndentOf(e.prefix, e.text, TRUE)
TOneShot == /\ l <= Len(Trace) /\ Ev.ev = "oneshot" /\ ~rejected
            /\ OneShotOK(Ev)
            /\ l' = l + 1 /\ UNCHANGED <<vars, tid, rejected>>

TReject == /\ l <= Len(Trace) /\ ~rejected
           /\ \/ Ev.ev = "write" /\ ~failed /\ ~WriteOK(Ev)
              \/ Ev.ev = "oneshot" /\ ~OneShotOK(Ev)
           /\ PrintT(<<"REJECT", tid, l>>)
           /\ rejected' = TRUE /\ l' = l + 1 /\ UNCHANGED <<vars, tid>>

TSkip == /\ l <= Len(Trace) /\ Ev.ev # "reset" /\ (rejected \/ (failed /\ Ev.ev = "write"))
         /\ l' = l + 1 /\ UNCHANGED <<vars, tid, rejected>>

TNext == Reset \/ TWrite \/ TOneShot \/ TReject \/ TSkip
TSpec == TInit /\ [][TNext]_tvars
MCNL == 10
Consumed == TLCGet("stats").diameter - 1 = Len(Trace)
\* the declarative property evaluated on every accepted state of the real execution
TChunkIndependent == (~failed /\ ~rejected) => sink = IndentOf(prefix, Concat(fed), TRUE)
====
