---- MODULE IndentTrace ----
(* Direction B for C20: recorded executions of the real indenting writer,   *)
(* one event per Write call, are stepped through Indent's definitions.      *)
(* Non-blocking: an unexplained event is reported and the trace skipped.    *)
EXTENDS Indent, IOUtils
Trace == ndJsonDeserialize(IOEnv.TRACE)
VARIABLES l, tid, rejected
tvars == <<vars, l, tid, rejected>>

TInit == /\ l = 1 /\ tid = 0 /\ rejected = FALSE
         /\ prefix = <<>> /\ fed = <<>> /\ sink = <<>> /\ lineOpen = FALSE /\ budget = INF
         /\ ret = [n |-> 0, err |-> FALSE] /\ failed = FALSE /\ hist = <<>>

Ev == Trace[l]
Reset == /\ l <= Len(Trace) /\ Ev.ev = "reset"
         /\ prefix' = Ev.prefix /\ fed' = <<>> /\ sink' = <<>> /\ lineOpen' = FALSE
         /\ budget' = INF /\ ret' = [n |-> 0, err |-> FALSE] /\ failed' = FALSE /\ hist' = <<>>
         /\ tid' = Ev.tid /\ rejected' = FALSE /\ l' = l + 1

\* the logged `accepted' is how many bytes the underlying writer took in this
\* call; everything else is decided by the specification
WriteOK(e) ==
  LET j == Joined(prefix, e.chunk, lineOpen)
      k == e.accepted
      short == k < Len(j)
      expN == IF short THEN CallerCount(j, k) ELSE Len(e.chunk)
  IN /\ k <= Len(j)
     /\ e.n = expN /\ e.err = short
     /\ e.sink = sink \o Bytes(j, k)

TWrite == /\ l <= Len(Trace) /\ Ev.ev = "write" /\ ~rejected /\ ~failed
          /\ WriteOK(Ev)
          /\ sink' = Ev.sink /\ failed' = Ev.err
          /\ ret' = [n |-> Ev.n, err |-> Ev.err]
          /\ lineOpen' = IF Ev.chunk = <<>> THEN lineOpen ELSE Ev.chunk[Len(Ev.chunk)] # NL
          /\ fed' = Append(fed, Ev.chunk)
          /\ UNCHANGED <<prefix, budget, hist, tid, rejected>> /\ l' = l + 1

\* the one-shot functions themselves: String / Bytes of the whole text
OneShotOK(e) == e.out = IndentOf(e.prefix, e.text, TRUE)
TOneShot == /\ l <= Len(Trace) /\ Ev.ev = "oneshot" /\ ~rejected
            /\ OneShotOK(Ev)
            /\ l' = l + 1 /\ UNCHANGED <<vars, tid, rejected>>

\* nested writers: the outer writer (prefix p2) writes into the inner one (prefix p1), calls go to either of them in
\* any order; each writer is the machine of Indent.tla on the bytes it is handed, so what reaches the sink is the
\* inner rendering of the stream made of the inner calls' chunks and the outer writer's renderings of its chunks
RECURSIVE NestStream(_, _, _)
NestStream(p2, calls, open2) ==
  IF calls = <<>> THEN <<>>
  ELSE LET c == Head(calls) IN
       IF c.lvl = 1 THEN c.chunk \o NestStream(p2, Tail(calls), open2)
       ELSE LET j == Joined(p2, c.chunk, open2)
                o2 == IF c.chunk = <<>> THEN open2 ELSE c.chunk[Len(c.chunk)] # NL
            IN Bytes(j, Len(j)) \o NestStream(p2, Tail(calls), o2)
NestedOK(e) == e.sink = IndentOf(e.p1, NestStream(e.p2, e.calls, FALSE), TRUE)
TNested == /\ l <= Len(Trace) /\ Ev.ev = "nested" /\ ~rejected
           /\ NestedOK(Ev)
           /\ l' = l + 1 /\ UNCHANGED <<vars, tid, rejected>>
TReject == /\ l <= Len(Trace) /\ ~rejected
           /\ \/ Ev.ev = "write" /\ ~failed /\ ~WriteOK(Ev)
              \/ Ev.ev = "oneshot" /\ ~OneShotOK(Ev)
              \/ Ev.ev = "nested" /\ ~NestedOK(Ev)
           /\ PrintT(<<"REJECT", tid, l>>)
           /\ rejected' = TRUE /\ l' = l + 1 /\ UNCHANGED <<vars, tid>>

TSkip == /\ l <= Len(Trace) /\ Ev.ev # "reset" /\ (rejected \/ (failed /\ Ev.ev = "write"))
         /\ l' = l + 1 /\ UNCHANGED <<vars, tid, rejected>>

TNext == Reset \/ TWrite \/ TOneShot \/ TNested \/ TReject \/ TSkip
TSpec == TInit /\ [][TNext]_tvars
MCNL == 10
Consumed == TLCGet("stats").diameter - 1 = Len(Trace)
\* the declarative property evaluated on every accepted state of the real execution
TChunkIndependent == (~failed /\ ~rejected) => sink = IndentOf(prefix, Concat(fed), TRUE)
====
