CONSTANTS
  Points <- MCChainPoints
  ChainPoints <- MCChainPoints
  Parents <- MCParentsFew
  MaxParts = 1
  MaxChain = 3
  Toks <- MCToks
  MaxToks = 0
INIT Init
NEXT Next
INVARIANTS Sound Narrowing Export
CHECK_DEADLOCK FALSE
