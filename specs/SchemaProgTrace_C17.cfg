CONSTANTS
  Programs = {}
  CanonOrder <- MCOrderB
  Focus = {"find", "struct"}
INIT TInit
NEXT TNext
POSTCONDITION Consumed
CHECK_DEADLOCK FALSE
