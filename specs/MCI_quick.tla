---- MODULE MCI_quick ----
EXTENDS MCIdent
Space == SIdent(2, 1)
====
