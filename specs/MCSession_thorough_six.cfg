CONSTANTS
  Good <- MCGoodSix
  Bad <- MCBadSix
  MaxOps = 6
  WithGet = FALSE
INIT Init
NEXT Next
INVARIANTS BatchEq Idempotent NamesUnique Export
PROPERTIES NoTrace
CHECK_DEADLOCK FALSE
