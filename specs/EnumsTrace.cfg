CONSTANTS
  Names = {}
  Vals = {}
  MinV = 0
  MaxV = 0
  Unique = TRUE
  MaxLen = 0
  NONE = 999999
INIT TInit
NEXT TNext
INVARIANTS TNamesUnique TValsUnique TInRange
POSTCONDITION Consumed
CHECK_DEADLOCK FALSE
