---- MODULE MCS_aug_quick ----
EXTENDS MCSchema
Space == SAugQuick(0)
====
