// Command verif is the driver of the model-based checks: "check <id> <tier>"
// decides one property, "exec <family>" is the executor child, "replay <file>"
// re-executes a recorded disagreement.
package main

import (
	"encoding/json"
	"fmt"
	"os"
	"strconv"

	"verifharness/core"
	_ "verifharness/fam/ast"
	_ "verifharness/fam/conc"
	_ "verifharness/fam/determ"
	_ "verifharness/fam/enums"
	_ "verifharness/fam/hazard"
	_ "verifharness/fam/ident"
	_ "verifharness/fam/indent"
	_ "verifharness/fam/numbers"
	_ "verifharness/fam/ranges"
	_ "verifharness/fam/registry"
	_ "verifharness/fam/schema"
	_ "verifharness/fam/session"
	_ "verifharness/fam/text"
	_ "verifharness/fam/types"
)

func main() {
	if len(os.Args) < 2 {
		usage()
	}
	switch os.Args[1] {
	case "exec":
		core.ExecMain(os.Args[2])
	case "check":
		if len(os.Args) < 4 {
			usage()
		}
		id, tier := os.Args[2], os.Args[3]
		if t := os.Getenv("VERIF_TIER"); t == "quick" || t == "thorough" {
			tier = t
		}
		seed := int64(1)
		if s := os.Getenv("VERIF_SEED"); s != "" {
			if n, err := strconv.ParseInt(s, 10, 64); err == nil {
				seed = n
			}
		}
		chk := core.Checks[id]
		if chk == nil {
			fmt.Fprintln(os.Stderr, "no check for", id)
			os.Exit(2)
		}
		r := core.NewRun(id, tier, seed)
		chk(r)
		os.Exit(r.Finish())
	case "replay":
		b, err := os.ReadFile(os.Args[2])
		if err != nil {
			fmt.Fprintln(os.Stderr, err)
			os.Exit(2)
		}
		var c core.Candidate
		var raw struct {
			Property string
			History  []string
			core.Candidate
		}
		if err := json.Unmarshal(b, &raw); err != nil {
			fmt.Fprintln(os.Stderr, err)
			os.Exit(2)
		}
		c = raw.Candidate
		for _, h := range raw.History {
			c.Hist = append(c.Hist, []byte(h))
		}
		ok, detail := core.Reproduce(c)
		if !ok && len(c.Hist) > 0 {
			ok, detail = core.ReproduceWithHistory(c)
		}
		if ok {
			fmt.Printf("VIOLATION property=%s replay=%s\n  reproduced: %s\n", raw.Property, os.Args[2], detail)
			os.Exit(1)
		}
		fmt.Println("not reproduced:", detail)
		os.Exit(0)
	default:
		usage()
	}
}

func usage() {
	fmt.Fprintln(os.Stderr, "usage: verif check <id> quick|thorough | exec <family> | replay <file>")
	os.Exit(2)
}
