// Command showprog is a development helper: it prints the random program of the schema family's
// direction B for a seed and a trace id, with what Process says about it.
package main

import (
	"fmt"
	"math/rand"
	"os"
	"strconv"

	"verifharness/fam/schema"
)

func main() {
	seed, _ := strconv.ParseInt(os.Args[1], 10, 64)
	tid, _ := strconv.Atoi(os.Args[2])
	rng := rand.New(rand.NewSource(seed*2147483659 + int64(tid)))
	p := schema.RandomProg(rng)
	fmt.Print(schema.Text(p))
	_, errs, perr := schema.Load(p, schema.Names(p))
	fmt.Println("parse error:", perr)
	for _, e := range errs {
		fmt.Println("process error:", e)
	}
}
