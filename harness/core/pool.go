package core

import (
	"bufio"
	"bytes"
	"encoding/json"
	"fmt"
	"io"
	"os"
	"os/exec"
	"regexp"
	"runtime"
	"runtime/debug"
	"strings"
	"sync"
	"time"
)

// Result is what came back for one request sent to an executor child.
type Result struct {
	Req    []byte
	Resp   []byte // nil when the child died or was killed
	Crash  string // "", "Crash" or "Timeout"
	Stderr string // tail of the child's standard error on Crash
	// Hist: the requests the same child executed before this one (most recent
	// maxHist); needed to reproduce a disagreement that depends on state the
	// library keeps between calls.
	Hist [][]byte
}

const maxHist = 20000

// Pool runs requests in long-lived child processes (this binary, "exec
// <family>") so that a panic, a fatal runtime error or a hang of the library
// under test is an observation, not the end of the check.
type Pool struct {
	self, family string
	reqs         chan []byte
	wg           sync.WaitGroup
	mu           sync.Mutex
	on           func(Result)
	Timeout      time.Duration
	Env          []string
	Crashes      int
	Timeouts     int
	Executed     int64
}

// NewPool starts n executors for family; on is called (serialised) per result.
func NewPool(family string, n int, on func(Result)) *Pool {
	self, _ := os.Executable()
	if PoolBinary != "" {
		self = PoolBinary
	}
	if n <= 0 {
		n = runtime.NumCPU()
		if PoolSize > 0 {
			n = PoolSize
		}
	}
	p := &Pool{self: self, family: family, reqs: make(chan []byte, 4*n), on: on, Timeout: 20 * time.Second, Env: PoolEnv}
	for i := 0; i < n; i++ {
		p.wg.Add(1)
		go p.worker()
	}
	return p
}

// Submit queues one request (a single-line JSON document).
func (p *Pool) Submit(req []byte) { p.reqs <- req }

// Close waits for all results.
func (p *Pool) Close() { close(p.reqs); p.wg.Wait() }

type child struct {
	hist   [][]byte
	cmd    *exec.Cmd
	in     io.WriteCloser
	out    *bufio.Reader
	errbuf *tailBuf
}

type tailBuf struct {
	mu sync.Mutex
	b  []byte
}

func (t *tailBuf) Write(p []byte) (int, error) {
	t.mu.Lock()
	defer t.mu.Unlock()
	t.b = append(t.b, p...)
	if len(t.b) > 16384 {
		// keep the head (the fatal error line and the top frames), drop the rest
		t.b = t.b[:16384]
	}
	return len(p), nil
}
func (t *tailBuf) String() string { t.mu.Lock(); defer t.mu.Unlock(); return string(t.b) }

func (p *Pool) spawn() (*child, error) {
	cmd := exec.Command(p.self, "exec", p.family)
	cmd.Env = append(os.Environ(), p.Env...)
	in, err := cmd.StdinPipe()
	if err != nil {
		return nil, err
	}
	out, err := cmd.StdoutPipe()
	if err != nil {
		return nil, err
	}
	eb := &tailBuf{}
	cmd.Stderr = eb
	if err := cmd.Start(); err != nil {
		return nil, err
	}
	return &child{cmd: cmd, in: in, out: bufio.NewReaderSize(out, 1<<20), errbuf: eb}, nil
}

func (c *child) kill() {
	if c == nil {
		return
	}
	c.in.Close()
	c.cmd.Process.Kill()
	c.cmd.Wait()
}

func (p *Pool) worker() {
	defer p.wg.Done()
	var c *child
	defer func() { c.kill() }()
	for req := range p.reqs {
		if c == nil {
			var err error
			if c, err = p.spawn(); err != nil {
				p.deliver(Result{Req: req, Crash: "Crash", Stderr: "spawn: " + err.Error()})
				c = nil
				continue
			}
		}
		type rd struct {
			line []byte
			err  error
		}
		done := make(chan rd, 1)
		go func(c *child) {
			if _, err := c.in.Write(append(append([]byte{}, req...), '\n')); err != nil {
				done <- rd{nil, err}
				return
			}
			line, err := c.out.ReadBytes('\n')
			done <- rd{line, err}
		}(c)
		select {
		case r := <-done:
			if r.err != nil {
				c.cmd.Wait()
				p.deliver(Result{Req: req, Crash: "Crash", Stderr: c.errbuf.String()})
				c.kill()
				c = nil
				continue
			}
			p.deliver(Result{Req: req, Resp: bytes.TrimRight(r.line, "\n"), Hist: c.hist})
			c.hist = append(c.hist, req)
			if len(c.hist) > maxHist {
				c.hist = append([][]byte{}, c.hist[maxHist/2:]...)
			}
		case <-time.After(p.Timeout):
			c.kill()
			c = nil
			p.deliver(Result{Req: req, Crash: "Timeout"})
		}
	}
}

func (p *Pool) deliver(r Result) {
	p.mu.Lock()
	defer p.mu.Unlock()
	p.Executed++
	switch r.Crash {
	case "Crash":
		p.Crashes++
	case "Timeout":
		p.Timeouts++
	}
	p.on(r)
}

// PoolBinary, PoolSize and PoolEnv override the executable, the number of
// children and the environment of the pools created next (used by C19 for the
// race-detector build and for timing-sensitive replays).
var (
	PoolBinary string
	PoolSize   int
	PoolEnv    []string
)

// Handler executes one request against the real library inside a child.
type Handler func(req []byte) any

// PanicInfo is the response a child gives when the handler panicked.
type PanicInfo struct {
	Panic string `json:"panic"`
	Frame string `json:"frame"`
}

// ServeExec is the child's main loop.
func ServeExec(h Handler) {
	debug.SetMaxStack(64 << 20)
	in := bufio.NewReaderSize(os.Stdin, 1<<20)
	out := bufio.NewWriterSize(os.Stdout, 1<<16)
	for {
		line, err := in.ReadBytes('\n')
		if len(line) > 0 {
			resp := safely(h, bytes.TrimRight(line, "\n"))
			b, jerr := json.Marshal(resp)
			if jerr != nil {
				b, _ = json.Marshal(map[string]string{"infra": "marshal: " + jerr.Error()})
			}
			out.Write(b)
			out.WriteByte('\n')
			out.Flush()
		}
		if err != nil {
			return
		}
	}
}

func safely(h Handler, req []byte) (resp any) {
	defer func() {
		if r := recover(); r != nil {
			resp = PanicInfo{Panic: fmt.Sprint(r), Frame: TopFrame(string(debug.Stack()))}
		}
	}()
	return h(req)
}

var reFrame = regexp.MustCompile(`(?m)^github\.com/openconfig/goyang/(?:pkg/)?(?:yang|indent|yangentry)?\.?(\S+?)\(`)

// TopFrame returns the innermost goyang function named in a Go stack dump.
func TopFrame(stack string) string {
	if m := reFrame.FindStringSubmatch(stack); m != nil {
		return m[1]
	}
	return "?"
}

// CrashSig turns the standard error of a dead child into a short signature.
func CrashSig(stderr string) string {
	kind := "exit"
	switch {
	case strings.Contains(stderr, "DATA RACE"):
		return "data-race:" + TopFrame(stderr)
	case strings.Contains(stderr, "stack overflow"), strings.Contains(stderr, "goroutine stack exceeds"):
		kind = "stack-overflow"
	case strings.Contains(stderr, "fatal error:"):
		kind = "fatal"
		if i := strings.Index(stderr, "fatal error:"); i >= 0 {
			l := stderr[i:]
			if j := strings.IndexByte(l, '\n'); j >= 0 {
				l = l[:j]
			}
			kind = strings.ReplaceAll(strings.TrimSpace(strings.TrimPrefix(l, "fatal error:")), " ", "-")
		}
	case strings.Contains(stderr, "panic:"):
		kind = "panic"
	}
	return kind + ":" + TopFrame(stderr)
}
