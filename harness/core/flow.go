package core

import (
	"sync/atomic"
	"bufio"
	"crypto/sha1"
	"encoding/json"
	"fmt"
	"os"
	"path/filepath"
	"sort"
	"strings"
	"sync"
	"time"
)

// Family binds a specification family to the real code.
type Family struct {
	Name string
	// Exec runs in a child process. kind 'A': body is a case exported by TLC
	// (input and expected outcome); kind 'B': body is {"seed":..,"tid":..} and
	// the verdict carries the recorded events of one generated execution.
	Exec func(kind byte, body []byte) *Verdict
	// Classify runs in the parent and names the class of an abstract case
	// without executing anything (needed when the child died).
	Classify func(kind byte, body []byte) string
	// Recorded: executions are not repeatable (goroutine schedules); a rejected
	// trace is kept verbatim as the evidence instead of being regenerated.
	Recorded bool
	// ClassifyCrashes: the class of a crash always comes from Classify (in the parent).
	ClassifyCrashes bool
	// NeedCompared: a design configuration none of whose cases was non-trivial (NT) for this family says the
	// configuration has become vacuous (every exported program an error case, say): trouble of the machinery.
	NeedCompared bool
}

// Verdict is a child's answer for one request.
type Verdict struct {
	OK     bool              `json:"ok"`
	Out    bool              `json:"out,omitempty"`    // outside the claim: executed, not compared
	NT     bool              `json:"nt,omitempty"`     // non-trivial by the family's rule
	Class  string            `json:"class,omitempty"`  // class of the case
	Sig    string            `json:"sig,omitempty"`    // shape of the disagreement
	Detail string            `json:"detail,omitempty"` // expected vs observed
	Infra  string            `json:"infra,omitempty"`  // the harness could not run the case
	Events []json.RawMessage `json:"events,omitempty"` // direction B
	Sample any               `json:"sample,omitempty"`
	N      int64             `json:"n,omitempty"` // real-code executions behind this verdict (default 1)
	Panic  string            `json:"panic,omitempty"`
	Frame  string            `json:"frame,omitempty"`
}

// Families is filled by the family packages' init functions.
var Families = map[string]*Family{}

// Register adds a family.
func Register(f *Family) { Families[f.Name] = f }

// ExecMain is the entry of "verif exec <family>".
func ExecMain(name string) {
	f := Families[name]
	if f == nil {
		fmt.Fprintln(os.Stderr, "unknown family", name)
		os.Exit(2)
	}
	ServeExec(func(req []byte) any {
		if len(req) == 0 {
			return &Verdict{Infra: "empty request"}
		}
		return f.Exec(req[0], req[1:])
	})
}

// Collector gathers the events that executions return, one trace per request.
type Collector struct {
	events map[int][]json.RawMessage
	class  map[int]string
	req    map[int][]byte
	hist   map[int][][]byte // what the same executor had run before (for history-aware reproduction)
	fam    map[int]string   // the family whose executor produced the trace (one collector may serve several)
	next   int
}

// NewCollector returns an empty collector.
func NewCollector() *Collector {
	return &Collector{events: map[int][]json.RawMessage{}, class: map[int]string{}, req: map[int][]byte{}, hist: map[int][][]byte{}, fam: map[int]string{}}
}

// Len is the number of traces collected.
func (c *Collector) Len() int { return len(c.events) }

func (r *Run) handle(f *Family, res Result, col *Collector) {
	kind, body := res.Req[0], res.Req[1:]
	r.mu.Lock()
	if r.firstReq == "" {
		r.firstReq = string(res.Req)
		if len(r.firstReq) > 1500 {
			r.firstReq = r.firstReq[:1500] + "..."
		}
	}
	r.mu.Unlock()
	if res.Crash != "" {
		class := "?"
		if f.Classify != nil {
			class = f.Classify(kind, body)
		}
		sig := "timeout"
		if res.Crash == "Crash" {
			sig = "crash:" + CrashSig(res.Stderr)
		}
		r.Count(1, 1)
		tail := res.Stderr
		if len(tail) > 600 {
			tail = tail[:600]
		}
		r.Fail(Candidate{Family: f.Name, Class: class, Sig: sig, Case: json.RawMessage(jsonOrString(res.Req)), Detail: res.Crash + " of the library: " + tail,
			Binary: PoolBinary, Env: PoolEnv})
		return
	}
	var v Verdict
	if err := json.Unmarshal(res.Resp, &v); err != nil {
		r.Infra("bad child response: " + err.Error())
		return
	}
	if v.Infra != "" {
		r.Infra(f.Name + ": " + v.Infra)
		return
	}
	n := v.N
	if n == 0 {
		n = 1
	}
	r.Count(1, n)
	if v.NT {
		r.NT(res.Req)
		atomic.AddInt64(&r.ntVerdicts, 1)
	}
	if v.Sample != nil {
		r.Sample(v.Sample)
	}
	if v.Panic != "" {
		class := v.Class
		if f.Classify != nil && (class == "" || f.ClassifyCrashes) {
			class = f.Classify(kind, body)
		}
		r.Fail(Candidate{Family: f.Name, Class: class, Sig: "crash:panic:" + v.Frame, Case: json.RawMessage(jsonOrString(res.Req)), Detail: "panic: " + v.Panic})
		return
	}
	if v.Out {
		r.mu.Lock()
		r.Extra["outside_claim"] = toInt(r.Extra["outside_claim"]) + 1
		r.mu.Unlock()
	}
	if col != nil && len(v.Events) > 0 {
		tid := 0
		if kind == 'B' {
			var q struct{ Tid int }
			json.Unmarshal(body, &q)
			tid = q.Tid
			col.events[tid] = v.Events
		} else {
			col.next++
			tid = 1000000 + col.next
			reset := json.RawMessage(fmt.Sprintf(`{"ev":"reset","tid":%d}`, tid))
			col.events[tid] = append([]json.RawMessage{reset}, v.Events...)
		}
		col.class[tid] = v.Class
		col.fam[tid] = f.Name
		col.req[tid] = res.Req
		col.hist[tid] = res.Hist
	}
	if !v.OK && !v.Out {
		r.Fail(Candidate{Family: f.Name, Class: v.Class, Sig: v.Sig, Case: json.RawMessage(jsonOrString(res.Req)), Detail: v.Detail, Hist: res.Hist})
	}
}

func jsonOrString(req []byte) []byte {
	b, _ := json.Marshal(string(req))
	return b
}

// DirectionA runs the design configuration and replays every exported case
// into the real code. keep (optional) selects cases, e.g. a residue class.
func (r *Run) DirectionA(fam string, o TLCOpts, keep func(i int64, body string) bool) *TLCResult {
	return r.DirectionAC(fam, o, keep, nil)
}

// DirectionAC is DirectionA with the events of the executions collected for a
// later ValidateTrace.
func (r *Run) DirectionAC(fam string, o TLCOpts, keep func(i int64, body string) bool, col *Collector) *TLCResult {
	f := Families[fam]
	pool := NewPool(fam, 0, func(res Result) { r.handle(f, res, col) })
	var i int64
	o.OnLine = func(line string) {
		if body, ok := CaseBody(line, "CASE"); ok {
			i++
			if keep == nil || keep(i, body) {
				if CaseSuffix != "" && strings.HasSuffix(body, "}") {
					body = body[:len(body)-1] + CaseSuffix
				}
				pool.Submit(append([]byte{'A'}, body...))
			}
		}
	}
	nt0 := atomic.LoadInt64(&r.ntVerdicts)
	res, err := RunTLC(r.SpecDir(), r.Out, o)
	pool.Close()
	nt := atomic.LoadInt64(&r.ntVerdicts) - nt0
	r.mu.Lock()
	r.Extra["crash_monitored"] = toInt(r.Extra["crash_monitored"]) + int(pool.Executed)
	r.Extra["cases_exported"] = toInt(r.Extra["cases_exported"]) + int(i)
	byCfg, _ := r.Extra["nontrivial_by_cfg"].(map[string][2]int64)
	if byCfg == nil {
		byCfg = map[string][2]int64{}
	}
	byCfg[o.Cfg] = [2]int64{byCfg[o.Cfg][0] + pool.Executed, byCfg[o.Cfg][1] + nt}
	r.Extra["nontrivial_by_cfg"] = byCfg
	r.mu.Unlock()
	if f.NeedCompared && pool.Executed >= 20 && nt == 0 {
		r.Infra(fmt.Sprintf("%s/%s: vacuous - none of the %d executed cases was one on which the comparison applies", o.Module, o.Cfg, pool.Executed))
	}
	if r.CheckTLC(o.Module+"/"+o.Cfg, res, err) {
		r.AddTLC(res)
		if i == 0 {
			r.Infra(o.Module + "/" + o.Cfg + ": no case was exported")
		}
	}
	return res
}

// SubmitAll replays explicitly given cases (kind 'A').
func (r *Run) SubmitAll(fam string, kind byte, cases [][]byte) {
	f := Families[fam]
	pool := NewPool(fam, 0, func(res Result) { r.handle(f, res, nil) })
	for _, c := range cases {
		pool.Submit(append([]byte{kind}, c...))
	}
	pool.Close()
	r.mu.Lock()
	r.Extra["crash_monitored"] = toInt(r.Extra["crash_monitored"]) + int(pool.Executed)
	r.mu.Unlock()
}

// DirectionB generates n seeded executions of the real code, writes their
// events as one ndjson trace file and lets the trace specification judge them.
func (r *Run) DirectionB(fam string, n int, o TLCOpts) {
	f := Families[fam]
	col := NewCollector()
	pool := NewPool(fam, 0, func(res Result) { r.handle(f, res, col) })
	for tid := 1; tid <= n; tid++ {
		pool.Submit([]byte(fmt.Sprintf(`B{"seed":%d,"tid":%d}`, r.Seed, tid)))
	}
	pool.Close()
	r.ValidateTrace(fam, col, o)
}

// ValidateTrace writes the collected events as one ndjson file and lets the
// trace specification judge them.
func (r *Run) ValidateTrace(fam string, col *Collector, o TLCOpts) {
	tids := make([]int, 0, len(col.events))
	for t := range col.events {
		tids = append(tids, t)
	}
	sort.Ints(tids)
	if len(tids) == 0 {
		r.Infra(fam + ": no events to validate")
		return
	}
	// large collections are judged in several parts at once (one TLC with one worker each: a trace
	// specification is sequential, the traces are independent of one another)
	parts := 1
	if len(tids) >= 400 {
		parts = 4
	}
	if o.Timeout == 0 {
		o.Timeout = 30 * time.Minute
	}
	var wg sync.WaitGroup
	for k := 0; k < parts; k++ {
		lo, hi := k*len(tids)/parts, (k+1)*len(tids)/parts
		wg.Add(1)
		go func(k int, part []int) {
			defer wg.Done()
			r.validatePart(fam, col, o, part, k)
		}(k, tids[lo:hi])
	}
	wg.Wait()
}

func (r *Run) validatePart(fam string, col *Collector, o TLCOpts, tids []int, k int) {
	r.mu.Lock()
	r.nTraceFiles++
	serial := r.nTraceFiles
	r.mu.Unlock()
	dir := filepath.Join(r.Out, fmt.Sprintf("tv-%s-%d", fam, serial))
	os.MkdirAll(dir, 0o755)
	defer os.RemoveAll(dir)
	path := filepath.Join(dir, "trace.ndjson")
	fh, err := os.Create(path)
	if err != nil {
		r.Infra(err.Error())
		return
	}
	w := bufio.NewWriterSize(fh, 1<<20)
	lines := [][]byte{nil}
	for _, t := range tids {
		for _, e := range col.events[t] {
			w.Write(e)
			w.WriteByte('\n')
			lines = append(lines, e)
		}
	}
	w.Flush()
	fh.Close()
	if len(lines) == 1 {
		r.Infra(fam + ": no events to validate")
		return
	}
	env := map[string]string{}
	for a, b := range o.Env {
		env[a] = b
	}
	env["TRACE"] = path
	o.Env = env
	o.Workers = 1
	rejected := map[int]bool{}
	o.OnLine = func(line string) {
		if v, ok := TupleInts(line, "REJECT"); ok && len(v) >= 2 {
			tid, l := v[0], v[1]
			if rejected[tid] {
				return
			}
			rejected[tid] = true
			det := ""
			if l >= 1 && l < len(lines) {
				det = string(lines[l])
				if len(det) > 1500 {
					det = det[:1500]
				}
			}
			why := ""
			if len(v) > 2 {
				why = fmt.Sprintf(" (reason %d)", v[2])
			}
			fp := col.events[tid]
			if tid > 1000000 {
				fp = fp[1:] // the reset line inserted by the harness is not part of the fingerprint
			}
			evs, _ := json.Marshal(fp)
			h := sha1.Sum(evs)
			cm := map[string]any{"req": string(col.req[tid]), "events_sha1": fmt.Sprintf("%x", h[:8])}
			if Families[fam].Recorded {
				cm["recorded_events"] = col.events[tid]
			}
			cj, _ := json.Marshal(cm)
			cfam := fam
			if col.fam[tid] != "" {
				cfam = col.fam[tid]
			}
			r.Fail(Candidate{Family: cfam, Class: col.class[tid], Sig: "trace-reject" + rejSuffix(lines, l) + rejReason(v),
				Case:        cj,
				Hist:        col.hist[tid],
				TraceModule: o.Module, TraceCfg: o.Cfg,
				Detail: fmt.Sprintf("the trace specification has no step for event %d of trace %d%s: %s", l, tid, why, det)})
		}
	}
	res, err := RunTLC(r.SpecDir(), dir, o)
	if err == nil && res != nil && res.ExitCode < 0 && !res.TimedOut && res.Violated == "" && len(res.Errors) == 0 {
		// the JVM was killed from outside without having said anything: once more
		for k := range rejected {
			delete(rejected, k)
		}
		res, err = RunTLC(r.SpecDir(), dir, o)
	}
	if err != nil || res.TimedOut || res.ExitCode != 0 || res.Violated != "" {
		msg := ""
		if res != nil {
			msg = fmt.Sprintf("exit %d timed-out=%v violated=%q errors=%v", res.ExitCode, res.TimedOut, res.Violated, res.Errors)
		}
		r.Infra(fmt.Sprintf("%s trace validation did not complete: %v %s", fam, err, msg))
		return
	}
	r.mu.Lock()
	r.Cmds = append(r.Cmds, res.Cmd)
	r.Extra["trace_events"] = toInt(r.Extra["trace_events"]) + len(lines) - 1
	r.Extra["traces_generated"] = toInt(r.Extra["traces_generated"]) + len(tids)
	r.Extra["traces_rejected"] = toInt(r.Extra["traces_rejected"]) + len(rejected)
	r.Extra["trace_states"] = toInt(r.Extra["trace_states"]) + int(res.Distinct)
	r.mu.Unlock()
}

func rejReason(v []int) string {
	if len(v) > 2 {
		return fmt.Sprintf(":r%d", v[2])
	}
	return ""
}

func rejSuffix(lines [][]byte, l int) string {
	if l >= 1 && l < len(lines) {
		var e struct{ Ev string }
		json.Unmarshal(lines[l], &e)
		return ":" + e.Ev
	}
	return ""
}

// Reproduce re-executes a candidate's request in a fresh child and reports
// whether the same disagreement shows again.
func Reproduce(c Candidate) (bool, string) {
	var req string
	var tr struct {
		Req      string            `json:"req"`
		Events   string            `json:"events_sha1"`
		Recorded []json.RawMessage `json:"recorded_events"`
	}
	if err := json.Unmarshal(c.Case, &req); err != nil {
		if err := json.Unmarshal(c.Case, &tr); err != nil || tr.Events == "" {
			return false, "unreadable candidate"
		}
		req = tr.Req
		if len(tr.Recorded) > 0 {
			return true, "trace recorded from the real execution (not repeatable); kept in the replay file"
		}
	}
	var got *Result
	// a data race shows up with some probability per run: the race-detector build is tried several times
	// ... and so does an outcome that varies from run to run (the order in which the runtime hands out a map)
	tries := 1
	if strings.Contains(c.Sig, "data-race") || strings.Contains(c.Sig, "varies") || strings.Contains(c.Sig, "depends-on-load-order") {
		tries = 10
	}
	for t := 0; t < tries; t++ {
		got = nil
		PoolBinary, PoolEnv = c.Binary, c.Env
		p := NewPool(c.Family, 1, func(res Result) { got = &res })
		PoolBinary, PoolEnv = "", nil
		p.Timeout = 60 * time.Second
		p.Submit([]byte(req))
		p.Close()
		if got != nil && got.Crash != "" {
			return true, got.Crash
		}
		if got != nil && tries > 1 && tr.Events == "" {
			var tv Verdict
			if json.Unmarshal(got.Resp, &tv) == nil && (tv.Panic != "" || (!tv.OK && !tv.Out)) {
				return true, tv.Detail
			}
		}
	}
	if got == nil {
		return false, "no result"
	}
	var v Verdict
	json.Unmarshal(got.Resp, &v)
	if v.Panic != "" {
		return true, "panic"
	}
	if tr.Events != "" {
		all := v.Events
		h := sha1.Sum(mustJSON(all))
		if fmt.Sprintf("%x", h[:8]) == tr.Events {
			return true, "the same trace again"
		}
		// not the same events (the library's behaviour varies between runs): what counts is whether the
		// specification rejects this execution too
		if c.TraceModule != "" && revalidate(all, c.TraceModule, c.TraceCfg) {
			return true, "another execution of the same request, rejected by the trace specification as well"
		}
		return false, "regenerated trace differs"
	}
	return !v.OK && !v.Out, v.Detail
}

// revalidate lets the trace specification judge one regenerated trace.
func revalidate(events []json.RawMessage, module, cfg string) bool {
	if len(events) == 0 {
		return false
	}
	dir, err := os.MkdirTemp(filepath.Join(Root, "out"), "reval")
	if err != nil {
		return false
	}
	defer os.RemoveAll(dir)
	path := filepath.Join(dir, "trace.ndjson")
	var sb strings.Builder
	var first struct{ Ev string }
	json.Unmarshal(events[0], &first)
	if first.Ev != "reset" {
		sb.WriteString(`{"ev":"reset","tid":1}` + "\n")
	}
	for _, e := range events {
		sb.Write(e)
		sb.WriteByte('\n')
	}
	if os.WriteFile(path, []byte(sb.String()), 0o644) != nil {
		return false
	}
	rejected := false
	o := TLCOpts{Module: module, Cfg: cfg, Workers: 1, Env: map[string]string{"TRACE": path}, HeapGB: 4,
		OnLine: func(line string) {
			if _, ok := TupleInts(line, "REJECT"); ok {
				rejected = true
			}
		}}
	res, err := RunTLC(SpecsDir, filepath.Join(dir, "tlc"), o)
	return err == nil && res != nil && !res.TimedOut && rejected
}

// Checks maps a property id to the function that decides it.
var Checks = map[string]func(r *Run){}

// CaseSuffix, when set, replaces the closing brace of every exported case: a
// way for a check to add a field (e.g. the concretisation tier) to the cases.
var CaseSuffix string

func mustJSON(v any) []byte { b, _ := json.Marshal(v); return b }

// SubmitCollect submits n seeded requests of the given kind ({"seed","tid"}) and
// collects their events (if col is not nil).
func SubmitCollect(r *Run, fam string, kind byte, n int, col *Collector) {
	f := Families[fam]
	pool := NewPool(fam, 0, func(res Result) {
		if kind != 'B' && col != nil {
			r.handle(f, res, col)
			return
		}
		r.handle(f, res, col)
	})
	for tid := 1; tid <= n; tid++ {
		pool.Submit([]byte(fmt.Sprintf(`%c{"seed":%d,"tid":%d}`, kind, r.Seed, tid)))
	}
	pool.Close()
	r.mu.Lock()
	r.Extra["crash_monitored"] = toInt(r.Extra["crash_monitored"]) + int(pool.Executed)
	r.mu.Unlock()
}

// ReproduceWithHistory replays the requests the original executor had run before the
// candidate's request, then the request itself, in one fresh executor.
func ReproduceWithHistory(c Candidate) (bool, string) {
	// State kept between calls may sit in places whose content also depends on the garbage
	// collector and the scheduler (sync.Pool, per-P caches): the replay is tried a few times,
	// every other time on a single P.  A candidate that never shows again stays unreproduced.
	ok, why := false, ""
	for t := 0; t < 6 && !ok; t++ {
		env := []string(nil)
		if t%2 == 1 {
			env = []string{"GOMAXPROCS=1"}
		}
		ok, why = reproduceWithHistoryOnce(c, env)
	}
	return ok, why
}

func reproduceWithHistoryOnce(c Candidate, env []string) (bool, string) {
	var req string
	wantEvents := ""
	if err := json.Unmarshal(c.Case, &req); err != nil {
		var tr struct {
			Req    string `json:"req"`
			Events string `json:"events_sha1"`
		}
		if err := json.Unmarshal(c.Case, &tr); err != nil || tr.Events == "" || tr.Req == "" {
			return false, "not a replayable request"
		}
		req, wantEvents = tr.Req, tr.Events
	}
	var last *Result
	PoolBinary, PoolEnv = c.Binary, append(append([]string(nil), c.Env...), env...)
	p := NewPool(c.Family, 1, func(res Result) { r := res; last = &r })
	PoolBinary, PoolEnv = "", nil
	p.Timeout = 120 * time.Second
	for _, h := range c.Hist {
		p.Submit(h)
	}
	p.Submit([]byte(req))
	p.Close()
	if last == nil || string(last.Req) != req {
		return false, "history replay did not reach the request"
	}
	if last.Crash != "" {
		return true, last.Crash
	}
	var v Verdict
	json.Unmarshal(last.Resp, &v)
	if wantEvents != "" {
		// a rejected trace: after the same earlier requests the same events must come out again
		h := sha1.Sum(mustJSON(v.Events))
		return fmt.Sprintf("%x", h[:8]) == wantEvents, "regenerated trace differs also after the executor's earlier requests"
	}
	return v.Panic != "" || (!v.OK && !v.Out), v.Detail
}

// SubmitFresh submits n seeded requests of the given kind, each to an executor process of its own that has executed
// nothing before (what a library does the first time in the life of a process is part of its behaviour).
func SubmitFresh(r *Run, fam string, kind byte, n, parallel int) {
	f := Families[fam]
	sem := make(chan struct{}, parallel)
	done := make(chan int64, n)
	for tid := 1; tid <= n; tid++ {
		sem <- struct{}{}
		go func(tid int) {
			defer func() { <-sem }()
			pool := NewPool(fam, 1, func(res Result) { r.handle(f, res, nil) })
			pool.Timeout = 120 * time.Second
			pool.Submit([]byte(fmt.Sprintf(`%c{"seed":%d,"tid":%d}`, kind, r.Seed, tid)))
			pool.Close()
			done <- pool.Executed
		}(tid)
	}
	var total int64
	for i := 0; i < n; i++ {
		total += <-done
	}
	r.mu.Lock()
	r.Extra["crash_monitored"] = toInt(r.Extra["crash_monitored"]) + int(total)
	r.mu.Unlock()
}
