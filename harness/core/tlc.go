// Package core holds the family-independent part of the harness: running TLC,
// the crash-isolating executor pool, known findings, evidence and verdicts.
package core

import (
	"bufio"
	"context"
	"fmt"
	"io"
	"os"
	"os/exec"
	"path/filepath"
	"regexp"
	"strconv"
	"strings"
	"time"
)

const (
	tlaJar  = "/opt/veriftools/tla/tla2tools.jar"
	tlaDeps = "/opt/veriftools/tla/CommunityModules-deps.jar"
)

// TLCOpts describes one TLC run.
type TLCOpts struct {
	Module   string            // root module (without .tla)
	Cfg      string            // config file name
	Workers  int               // 0 = 8
	Simulate string            // non-empty: "-simulate <value>"
	Depth    int               // with Simulate
	Seed     int64             // with Simulate
	Env      map[string]string // extra environment (IOEnv)
	Timeout  time.Duration     // 0 = 10 min
	HeapGB   int               // 0 = 8
	DFS      bool              // StateDeque queue (trace validation with branching)
	Coverage bool
	OnLine   func(line string) // every stdout line
	Define   map[string]string // written as constants into Gen_<Module>.tla? (unused)
}

// TLCResult is what the summary lines of a TLC run said.
type TLCResult struct {
	Generated int64
	Distinct  int64
	Queue     int64
	Depth     int
	ExitCode  int
	Violated  string   // name of a violated invariant / property, if any
	Errors    []string // lines starting with "Error:"
	TimedOut  bool
	WallS     float64
	Cmd       string
	ZeroCov   []string // coverage lines with count 0 (when Coverage)
}

var (
	reStates = regexp.MustCompile(`^(\d+) states generated, (\d+) distinct states found, (\d+) states left on queue`)
	reDepth  = regexp.MustCompile(`^The depth of the complete state graph search is (\d+)`)
	reInv    = regexp.MustCompile(`^Error: (?:Invariant|Action property|Temporal properties|Property) ?(\S*) (?:is|were) violated`)
	reCov0   = regexp.MustCompile(`^\s*<?(\S.*): 0:0$|^\s*\|*line .*: 0$`)
)

// RunTLC copies the specification directory into scratch, runs TLC there and
// streams its standard output to opts.OnLine.
func RunTLC(specDir, scratch string, o TLCOpts) (*TLCResult, error) {
	if err := os.MkdirAll(scratch, 0o755); err != nil {
		return nil, err
	}
	ents, err := os.ReadDir(specDir)
	if err != nil {
		return nil, err
	}
	for _, e := range ents {
		n := e.Name()
		if strings.HasSuffix(n, ".tla") || strings.HasSuffix(n, ".cfg") {
			b, err := os.ReadFile(filepath.Join(specDir, n))
			if err != nil {
				return nil, err
			}
			if err := os.WriteFile(filepath.Join(scratch, n), b, 0o644); err != nil {
				return nil, err
			}
		}
	}
	if o.Workers == 0 {
		o.Workers = 8
	}
	if o.Timeout == 0 {
		o.Timeout = 40 * time.Minute // (a loaded machine stretches the replay that TLC feeds; a hang is still noticed)
	}
	if o.HeapGB == 0 {
		o.HeapGB = 8
	}
	meta := filepath.Join(scratch, "meta-"+o.Module+"-"+strings.TrimSuffix(o.Cfg, ".cfg"))
	os.RemoveAll(meta)
	// TLC's modules create temporary directories (tlc-<n>) and do not remove them: keep them out of /tmp
	jtmp := filepath.Join(scratch, "jtmp")
	os.MkdirAll(jtmp, 0o755)
	args := []string{"-XX:+UseParallelGC", "-XX:ParallelGCThreads=4", fmt.Sprintf("-Xmx%dg", o.HeapGB), "-Xss256m", "-Djava.io.tmpdir=" + jtmp}
	if o.DFS {
		args = append(args, "-Dtlc2.tool.queue.IStateQueue=StateDeque")
	}
	args = append(args, "-cp", tlaJar+":"+tlaDeps, "tlc2.TLC",
		"-metadir", meta, "-noGenerateSpecTE", "-config", o.Cfg, "-workers", strconv.Itoa(o.Workers))
	if o.Coverage {
		args = append(args, "-coverage", "1")
	}
	if o.Simulate != "" {
		args = append(args, "-simulate", o.Simulate, "-depth", strconv.Itoa(o.Depth), "-seed", strconv.FormatInt(o.Seed, 10))
	}
	args = append(args, o.Module)
	ctx, cancel := context.WithTimeout(context.Background(), o.Timeout)
	defer cancel()
	cmd := exec.CommandContext(ctx, "java", args...)
	cmd.Dir = scratch
	cmd.Env = append(os.Environ(), "JAVA_TOOL_OPTIONS=")
	for k, v := range o.Env {
		cmd.Env = append(cmd.Env, k+"="+v)
	}
	out, err := cmd.StdoutPipe()
	if err != nil {
		return nil, err
	}
	cmd.Stderr = io.Discard
	res := &TLCResult{Cmd: "java " + strings.Join(args, " ")}
	t0 := time.Now()
	if err := cmd.Start(); err != nil {
		return nil, err
	}
	rd := bufio.NewReaderSize(out, 1<<20)
	for {
		line, err := rd.ReadString('\n')
		if len(line) > 0 {
			line = strings.TrimRight(line, "\r\n")
			if m := reStates.FindStringSubmatch(line); m != nil {
				res.Generated, _ = strconv.ParseInt(m[1], 10, 64)
				res.Distinct, _ = strconv.ParseInt(m[2], 10, 64)
				res.Queue, _ = strconv.ParseInt(m[3], 10, 64)
			} else if m := reDepth.FindStringSubmatch(line); m != nil {
				res.Depth, _ = strconv.Atoi(m[1])
			} else if strings.HasPrefix(line, "Error:") {
				res.Errors = append(res.Errors, line)
				if m := reInv.FindStringSubmatch(line); m != nil {
					res.Violated = m[1]
					if res.Violated == "" {
						res.Violated = "property"
					}
				}
			} else if o.Coverage && reCov0.MatchString(line) {
				res.ZeroCov = append(res.ZeroCov, strings.TrimSpace(line))
			}
			if o.OnLine != nil {
				o.OnLine(line)
			}
		}
		if err != nil {
			break
		}
	}
	werr := cmd.Wait()
	res.WallS = time.Since(t0).Seconds()
	if ctx.Err() == context.DeadlineExceeded {
		res.TimedOut = true
	}
	if ee, ok := werr.(*exec.ExitError); ok {
		res.ExitCode = ee.ExitCode()
	} else if werr != nil {
		return res, werr
	}
	os.RemoveAll(meta)
	return res, nil
}

// CaseBody extracts the JSON body of a line printed by
// PrintT(<<"TAG", ToJson(..)>>); ok is false for every other line.
func CaseBody(line, tag string) (string, bool) {
	pre := `<<"` + tag + `", "`
	if !strings.HasPrefix(line, pre) || !strings.HasSuffix(line, `">>`) {
		return "", false
	}
	body := line[len(pre) : len(line)-3]
	if !strings.ContainsRune(body, '\\') {
		return body, true
	}
	var sb strings.Builder
	sb.Grow(len(body))
	for i := 0; i < len(body); i++ {
		if body[i] == '\\' && i+1 < len(body) {
			i++
			sb.WriteByte(body[i])
		} else {
			sb.WriteByte(body[i])
		}
	}
	return sb.String(), true
}

// TupleInts parses a line such as <<"REJECT", 3, 17>> into its tag and integers.
func TupleInts(line, tag string) ([]int, bool) {
	pre := `<<"` + tag + `"`
	if !strings.HasPrefix(line, pre) || !strings.HasSuffix(line, ">>") {
		return nil, false
	}
	rest := strings.TrimSuffix(line[len(pre):], ">>")
	var out []int
	for _, f := range strings.Split(rest, ",") {
		f = strings.TrimSpace(f)
		if f == "" {
			continue
		}
		f = strings.Trim(f, `"`)
		n, err := strconv.Atoi(f)
		if err != nil {
			continue
		}
		out = append(out, n)
	}
	return out, true
}
