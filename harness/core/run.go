package core

import (
	"crypto/sha1"
	"encoding/json"
	"fmt"
	"os"
	"path/filepath"
	"sort"
	"strings"
	"sync"
	"time"
)

// Root is the framework's directory.
var Root = "/verif"

// Developer overrides, used only by tools/seedpar to try a seeded change in a
// scratch worktree without touching /repo (registered commands never set them).
var (
	RepoDir     = envOr("VERIF_REPO", "/repo")
	HarnessDir  = envOr("VERIF_HARNESS", Root+"/harness")
	EvidenceDir = envOr("VERIF_EVIDENCE", Root+"/evidence")
	SpecsDir    = envOr("VERIF_SPECS", Root+"/specs")
)

func envOr(k, d string) string {
	if v := os.Getenv(k); v != "" {
		return v
	}
	return d
}

// Candidate is a disagreement between the specification and the real code.
type Candidate struct {
	Family string          `json:"family"`
	Class  string          `json:"class"`  // predicate over the abstract case
	Sig    string          `json:"sig"`    // shape of the observed failure
	Case   json.RawMessage `json:"case"`   // what to re-execute
	Detail string          `json:"detail"` // human readable: expected vs observed
	// Hist: earlier requests of the same executor (kept in memory for the first
	// candidate of a group only; written to the replay file when needed).
	Hist [][]byte `json:"-"`
	// Binary / Env: the executor that observed it when that is not this binary (the race-detector build)
	Binary string   `json:"-"`
	Env    []string `json:"-"`
	// Trace: the trace specification that rejected the recorded events (module, config), so that a
	// regenerated trace that is not byte-identical can be judged again instead of being compared
	TraceModule string `json:"trace_module,omitempty"`
	TraceCfg    string `json:"trace_cfg,omitempty"`
}

// Finding is one entry of known_findings.json.
type Finding struct {
	Property string `json:"property"`
	Class    string `json:"class"`
	Sig      string `json:"sig"`
	What     string `json:"what"`
	Example  any    `json:"example,omitempty"`
}

type kfFile struct {
	Findings []Finding `json:"findings"`
	Fixed    []string  `json:"fixed"`
}

// Run collects what one invocation of a check saw and turns it into the
// verdict lines, the exit status and the evidence file.
type Run struct {
	ID, Tier string
	Seed     int64
	Level    string
	Out      string // scratch directory of this run
	t0       time.Time
	mu       sync.Mutex

	nTraceFiles         int
	States, Transitions int64
	Traces              int64 // executions of the real code judged against the specification
	Evaluations         int64
	Nontrivial          int64
	ntVerdicts          int64
	Rule                string
	Exhaustive          bool
	Samples             []any
	Cmds                []string
	Assumptions         []string
	Extra               map[string]any

	cands  map[string][]Candidate
	order  []string
	infra  []string
	kf     kfFile
	seenNT map[[20]byte]struct{}
	// firstReq is the first request executed, kept as a fallback sample.
	firstReq string
}

// NewRun prepares the scratch directory and loads the known findings.
func NewRun(id, tier string, seed int64) *Run {
	r := &Run{ID: id, Tier: tier, Seed: seed, Level: "model_checking", t0: time.Now(),
		cands: map[string][]Candidate{}, Extra: map[string]any{}, seenNT: map[[20]byte]struct{}{}}
	r.Out = filepath.Join(Root, "out", fmt.Sprintf("%s-%s-%d", id, tier, os.Getpid()))
	os.MkdirAll(r.Out, 0o755)
	os.MkdirAll(filepath.Join(Root, "out", "replay"), 0o755)
	os.MkdirAll(filepath.Join(Root, "evidence"), 0o755)
	if b, err := os.ReadFile(filepath.Join(Root, "known_findings.json")); err == nil {
		if err := json.Unmarshal(b, &r.kf); err != nil {
			r.Infra("known_findings.json: " + err.Error())
		}
	}
	return r
}

// SpecDir is where the TLA+ modules live.
func (r *Run) SpecDir() string { return SpecsDir }

// Infra records trouble of the machinery itself (exit 2, never a violation).
func (r *Run) Infra(msg string) {
	r.mu.Lock()
	defer r.mu.Unlock()
	r.infra = append(r.infra, msg)
	fmt.Fprintln(os.Stderr, "INFRA:", msg)
}

// Fail records a disagreement.
func (r *Run) Fail(c Candidate) {
	r.mu.Lock()
	defer r.mu.Unlock()
	k := c.Class + "\x00" + c.Sig
	if _, ok := r.cands[k]; !ok {
		r.order = append(r.order, k)
	}
	if len(r.cands[k]) > 0 {
		c.Hist = nil // only the first candidate of a group keeps its history
	}
	if len(r.cands[k]) < 5 {
		r.cands[k] = append(r.cands[k], c)
	} else {
		r.cands[k] = append(r.cands[k][:4], r.cands[k][4]) // keep the count bounded
	}
	r.Extra["disagreements"] = toInt(r.Extra["disagreements"]) + 1
}

func toInt(v any) int {
	if n, ok := v.(int); ok {
		return n
	}
	return 0
}

// Count adds to the tallies (thread safe).
func (r *Run) Count(evals, traces int64) {
	r.mu.Lock()
	r.Evaluations += evals
	r.Traces += traces
	r.mu.Unlock()
}

// NT counts a case as non-trivial once per distinct key.
func (r *Run) NT(key []byte) {
	h := sha1.Sum(key)
	r.mu.Lock()
	if _, ok := r.seenNT[h]; !ok {
		r.seenNT[h] = struct{}{}
		r.Nontrivial++
	}
	r.mu.Unlock()
}

// Sample keeps a few actual cases for the evidence file.
func (r *Run) Sample(v any) {
	r.mu.Lock()
	if len(r.Samples) < 4 {
		r.Samples = append(r.Samples, v)
	}
	r.mu.Unlock()
}

// AddTLC accounts for a design run of TLC.
func (r *Run) AddTLC(res *TLCResult) {
	r.mu.Lock()
	r.States += res.Distinct
	r.Transitions += res.Generated
	r.Cmds = append(r.Cmds, res.Cmd)
	r.mu.Unlock()
}

// CheckTLC treats a TLC run that did not end cleanly as trouble of the
// machinery: a violated design invariant says the specification is wrong (the
// code was not involved), a timeout or crash says nothing at all.
func (r *Run) CheckTLC(what string, res *TLCResult, err error) bool {
	if err != nil {
		r.Infra(what + ": " + err.Error())
		return false
	}
	if res.TimedOut {
		r.Infra(what + ": TLC timed out")
		return false
	}
	if res.Violated != "" {
		r.Infra(what + ": design invariant " + res.Violated + " violated on the specification itself")
		return false
	}
	if res.ExitCode != 0 || len(res.Errors) > 0 {
		r.Infra(fmt.Sprintf("%s: TLC exit %d %v", what, res.ExitCode, res.Errors))
		return false
	}
	if res.Distinct == 0 {
		r.Infra(what + ": TLC explored no states")
		return false
	}
	return true
}

func matches(f Finding, id string, c Candidate) bool {
	if f.Property != id || f.Class != c.Class {
		return false
	}
	if strings.HasSuffix(f.Sig, "*") {
		return strings.HasPrefix(c.Sig, strings.TrimSuffix(f.Sig, "*"))
	}
	return f.Sig == c.Sig
}

// Finish prints the verdict lines, writes the evidence file and returns the
// exit status.
func (r *Run) Finish() int {
	r.mu.Lock()
	defer r.mu.Unlock()
	violations := 0
	fired := []string{}
	sort.Strings(r.order)
	for _, k := range r.order {
		cs := r.cands[k]
		c := cs[0]
		known := false
		for _, f := range r.kf.Findings {
			if matches(f, r.ID, c) {
				fmt.Printf("KNOWN-FINDING: property=%s %s [class=%s sig=%s]\n", r.ID, f.What, c.Class, c.Sig)
				fired = append(fired, f.Class+"/"+f.Sig)
				known = true
				break
			}
		}
		if known {
			continue
		}
		ok, why := Reproduce(c)
		withHist := false
		if !ok && len(c.Hist) > 0 {
			// perhaps it depends on what the same process executed before (state the library keeps between calls)
			if ok2, why2 := ReproduceWithHistory(c); ok2 {
				ok, why, withHist = true, why2, true
				c.Sig += "(after-earlier-cases-in-one-process)"
				c.Detail += "\nThe disagreement shows only after the earlier cases executed by the same process (kept in the replay file): the library keeps state between calls."
			} else {
				why += fmt.Sprintf("; with the %d earlier requests of its executor: %s", len(c.Hist), why2)
			}
		}
		if !ok && c.Sig == "timeout" && !strings.HasPrefix(why, "no result") {
			// the case ran into the executor's time limit once and completes in a fresh executor: twice more, and if it
			// completes every time the machine was slow (other work on it), the library did not hang
			slow := true
			for k := 0; k < 2 && slow; k++ {
				ok2, why2 := Reproduce(c)
				if ok2 {
					ok, why, slow = true, why2, false
				} else if why2 == "no result" {
					slow = false
				}
			}
			if slow {
				r.Extra["slow_cases_completed_on_retry"] = toInt(r.Extra["slow_cases_completed_on_retry"]) + 1
				fmt.Fprintf(os.Stderr, "NOTE: a case of class=%s exceeded the executor's time limit once and completed in three fresh executors (slow machine)\n", c.Class)
				continue
			}
		}
		if !ok {
			r.infra = append(r.infra, fmt.Sprintf("candidate class=%s sig=%s did not reproduce in a fresh executor (%s): %s", c.Class, c.Sig, why, c.Detail))
			fmt.Fprintln(os.Stderr, "INFRA:", r.infra[len(r.infra)-1])
			continue
		}
		violations++
		h := sha1.Sum([]byte(k + string(c.Case)))
		path := filepath.Join(Root, "out", "replay", fmt.Sprintf("%s-%x.json", r.ID, h[:6]))
		rep := map[string]any{"property": r.ID, "family": c.Family, "class": c.Class,
			"sig": c.Sig, "detail": c.Detail, "case": c.Case, "seed": r.Seed, "tier": r.Tier}
		if c.TraceModule != "" {
			rep["trace_module"], rep["trace_cfg"] = c.TraceModule, c.TraceCfg
		}
		if withHist {
			var hs []string
			for _, h := range c.Hist {
				hs = append(hs, string(h))
			}
			rep["history"] = hs
		}
		b, _ := json.MarshalIndent(rep, "", " ")
		os.WriteFile(path, b, 0o644)
		fmt.Printf("VIOLATION property=%s replay=%s\n", r.ID, path)
		det := c.Detail
		if len(det) > 900 {
			det = det[:900] + " ... (full text in the replay file)"
		}
		fmt.Printf("  class=%s sig=%s\n  %s\n", c.Class, c.Sig, det)
	}
	cov := map[string]any{
		"states": r.States, "transitions": r.Transitions,
		"traces_validated_against_impl": r.Traces,
		"evaluations":                   r.Evaluations, "distinct_nontrivial": r.Nontrivial,
		"rule": r.Rule, "samples": r.Samples, "exhaustive": r.Exhaustive,
		"checker_cmd": strings.Join(r.Cmds, " ; "), "known_findings_fired": fired,
	}
	for k, v := range r.Extra {
		cov[k] = v
	}
	if len(r.Samples) == 0 {
		if r.firstReq != "" {
			cov["samples"] = []any{map[string]any{"first_case_executed": r.firstReq}}
		} else {
			cov["samples"] = []any{}
		}
	}
	ev := map[string]any{
		"property_id": r.ID, "tier": r.Tier, "seed": r.Seed, "level": r.Level,
		"coverage": cov, "assumptions": r.Assumptions,
		"wall_s": float64(int(time.Since(r.t0).Seconds()*10)) / 10, "violations": violations,
	}
	if len(r.infra) > 0 {
		ev["infra"] = r.infra
	}
	b, _ := json.MarshalIndent(ev, "", " ")
	os.WriteFile(filepath.Join(EvidenceDir, r.ID+".json"), append(b, '\n'), 0o644)
	if os.Getenv("VERIF_KEEP") == "" {
		os.RemoveAll(r.Out)
	}
	// working directories of executor children that died mid-request
	if ds, _ := filepath.Glob(filepath.Join(Root, "out", "hz*")); len(ds) > 0 {
		for _, d := range ds {
			if fi, err := os.Stat(d); err == nil && time.Since(fi.ModTime()) > 10*time.Minute {
				os.RemoveAll(d)
			}
		}
	}
	switch {
	case violations > 0:
		return 1
	case len(r.infra) > 0:
		return 2
	}
	fmt.Printf("OK property=%s tier=%s seed=%d states=%d executions=%d nontrivial=%d wall=%.1fs\n",
		r.ID, r.Tier, r.Seed, r.States, r.Traces, r.Nontrivial, time.Since(r.t0).Seconds())
	return 0
}
