// Package numbers binds Numbers.tla (C15) to yang.Number and its parsers.
package numbers

import (
	"encoding/json"
	"fmt"
	"math/big"
	"math/rand"
	"strings"

	"github.com/openconfig/goyang/pkg/yang"
	"verifharness/core"
)

func init() {
	core.Register(&core.Family{Name: "numbers", Exec: exec, Classify: func(k byte, b []byte) string { return "numbers" }})
	core.Checks["C15"] = check
}

type num struct {
	Neg bool  `json:"neg"`
	Mag []int `json:"mag"`
	Fd  int   `json:"fd"`
}
type lit struct {
	Sign string `json:"sign"`
	Ip   []int  `json:"ip"`
	Fp   []int  `json:"fp"`
	Fd   int    `json:"fd"`
	// Before: a literal to be parsed first (at its own precision); the result for this one must not depend on it
	Before *struct {
		Ip []int `json:"ip"`
		Fp []int `json:"fp"`
		Fd int   `json:"fd"`
	} `json:"before"`
}
type res struct {
	Less bool `json:"less"`
	Eq   bool `json:"eq"`
	Str  struct {
		Neg bool  `json:"neg"`
		Ip  []int `json:"ip"`
		Fp  []int `json:"fp"`
	} `json:"str"`
	Int struct {
		Ok  bool  `json:"ok"`
		Neg bool  `json:"neg"`
		Mag []int `json:"mag"`
	} `json:"int"`
	Ok  bool  `json:"ok"`
	Neg bool  `json:"neg"`
	Mag []int `json:"mag"`
	Fd  int   `json:"fd"`
}
type cas struct {
	Op  string          `json:"op"`
	A   json.RawMessage `json:"a"`
	B   json.RawMessage `json:"b"`
	Lit json.RawMessage `json:"lit"`
	Res res             `json:"res"`
}

func ds(d []int) string {
	var b strings.Builder
	for _, x := range d {
		b.WriteByte(byte('0' + x))
	}
	return b.String()
}

func digits(v uint64) []int {
	s := fmt.Sprint(v)
	d := make([]int, len(s))
	for i := range s {
		d[i] = int(s[i] - '0')
	}
	return d
}

func mk(x num) yang.Number {
	v, _ := new(big.Int).SetString(ds(x.Mag), 10)
	return yang.Number{Value: v.Uint64(), FractionDigits: uint8(x.Fd), Negative: x.Neg}
}

func render(neg bool, ip, fp []int) string {
	s := ds(ip)
	if len(fp) > 0 {
		s += "." + ds(fp)
	}
	if neg {
		s = "-" + s
	}
	return s
}

func exec(kind byte, body []byte) *core.Verdict {
	if kind == 'B' {
		return gen(body)
	}
	var c cas
	if err := json.Unmarshal(body, &c); err != nil {
		return &core.Verdict{Infra: "case: " + err.Error()}
	}
	v := &core.Verdict{OK: true, Class: c.Op, NT: true}
	fail := func(sig, f string, a ...any) *core.Verdict {
		v.OK, v.Sig, v.Detail = false, sig, fmt.Sprintf(f, a...)
		return v
	}
	switch c.Op {
	case "cmp":
		var a, b num
		json.Unmarshal(c.A, &a)
		json.Unmarshal(c.B, &b)
		x, y := mk(a), mk(b)
		v.NT = a.Fd != b.Fd || len(a.Mag) > 17
		if got := x.Less(y); got != c.Res.Less {
			return fail("less", "%#v < %#v: exact arithmetic says %v, library %v", x, y, c.Res.Less, got)
		}
		if got := x.Equal(y); got != c.Res.Eq {
			return fail("equal", "%#v == %#v: exact arithmetic says %v, library %v", x, y, c.Res.Eq, got)
		}
		if a.Fd == 1 && b.Fd == 18 && len(a.Mag) == 19 && len(b.Mag) == 19 && !a.Neg && b.Neg {
			v.Sample = map[string]any{"op": "Less/Equal", "a": x.String(), "b": y.String(), "less": c.Res.Less, "equal": c.Res.Eq}
		}
	case "unary":
		var a num
		json.Unmarshal(c.A, &a)
		x := mk(a)
		want := render(c.Res.Str.Neg, c.Res.Str.Ip, c.Res.Str.Fp)
		if got := x.String(); got != want {
			return fail("string", "%#v prints %q, exact rendering %q", x, got, want)
		}
		i, err := x.Int()
		if c.Res.Int.Ok != (err == nil) {
			return fail("int-accept", "%#v.Int(): exact conversion exists=%v, library returned (%d, %v)", x, c.Res.Int.Ok, i, err)
		}
		if err == nil {
			w, _ := new(big.Int).SetString(ds(c.Res.Int.Mag), 10)
			if c.Res.Int.Neg {
				w.Neg(w)
			}
			if w.Cmp(big.NewInt(i)) != 0 {
				return fail("int-value", "%#v.Int() = %d, exact value %s", x, i, w)
			}
			if back := yang.FromInt(i); !back.Equal(x) {
				return fail("fromint", "FromInt(%d) = %#v is not equal to %#v", i, back, x)
			}
		}
		if a.Fd == 0 && !a.Neg {
			if back := yang.FromUint(x.Value); !back.Equal(x) || back.String() != want {
				return fail("fromuint", "FromUint(%d) = %#v", x.Value, back)
			}
		}
		// printing and parsing back at the same precision
		var back yang.Number
		if a.Fd == 0 {
			back, err = yang.ParseInt(x.String())
		} else {
			back, err = yang.ParseDecimal(x.String(), uint8(a.Fd))
		}
		if err != nil {
			return fail("roundtrip-error", "%#v prints %q which does not parse back: %v", x, x.String(), err)
		}
		if !back.Equal(x) || !x.Equal(back) || back.FractionDigits != x.FractionDigits {
			return fail("roundtrip", "%#v prints %q which parses back to %#v", x, x.String(), back)
		}
	case "parse":
		var l lit
		json.Unmarshal(c.Lit, &l)
		s := l.Sign + ds(l.Ip)
		if len(l.Fp) > 0 {
			s += "." + ds(l.Fp)
		}
		if l.Before != nil {
			b := l.Sign + ds(l.Before.Ip)
			if len(l.Before.Fp) > 0 {
				b += "." + ds(l.Before.Fp)
			}
			yang.ParseDecimal(b, uint8(l.Before.Fd))
			v.N = 2
		}
		var got yang.Number
		var err error
		if l.Fd == 0 {
			got, err = yang.ParseInt(s)
		} else {
			got, err = yang.ParseDecimal(s, uint8(l.Fd))
		}
		v.NT = len(l.Fp) > 0
		if c.Res.Ok != (err == nil) {
			return fail("parse-accept", "parse %q at fraction-digits %d: literal representable=%v, library returned (%#v, %v)", s, l.Fd, c.Res.Ok, got, err)
		}
		if err == nil {
			want := mk(num{Neg: c.Res.Neg, Mag: c.Res.Mag, Fd: c.Res.Fd})
			if got.Value != want.Value || int(got.FractionDigits) != c.Res.Fd || (got.Negative != want.Negative && want.Value != 0) {
				return fail("parse-value", "parse %q at fraction-digits %d: library %#v, exact %#v", s, l.Fd, got, want)
			}
		}
		if l.Fd == 2 && len(l.Fp) == 2 && len(l.Ip) > 15 {
			v.Sample = map[string]any{"op": "ParseDecimal", "literal": s, "fraction_digits": l.Fd, "representable": c.Res.Ok}
		}
	default:
		return &core.Verdict{Infra: "unknown op " + c.Op}
	}
	return v
}

func toNum(n yang.Number) map[string]any {
	return map[string]any{"neg": n.Negative, "mag": digits(n.Value), "fd": int(n.FractionDigits)}
}

// gen: random 64-bit numbers and literals; every library result is recorded
// and judged by NumbersTrace.tla.
func gen(body []byte) *core.Verdict {
	var q struct {
		Seed int64
		Tid  int
	}
	json.Unmarshal(body, &q)
	rng := rand.New(rand.NewSource(q.Seed*104729 + int64(q.Tid)))
	v := &core.Verdict{OK: true, Class: "generated", NT: true}
	emit := func(m map[string]any) {
		b, _ := json.Marshal(m)
		v.Events = append(v.Events, b)
	}
	emit(map[string]any{"ev": "reset", "tid": q.Tid})
	rnd := func() yang.Number {
		var val uint64
		switch rng.Intn(6) {
		case 0:
			val = rng.Uint64()
		case 1:
			val = uint64(rng.Intn(2000))
		case 2:
			val = 1<<63 + uint64(rng.Intn(9)) - 4
		case 3:
			val = ^uint64(0) - uint64(rng.Intn(3))
		case 4:
			p := uint64(1)
			for i, k := 0, rng.Intn(19); i < k; i++ {
				p *= 10
			}
			val = p + uint64(rng.Intn(3)) - 1
		default:
			val = rng.Uint64() >> uint(rng.Intn(64))
		}
		n := yang.Number{Value: val, Negative: rng.Intn(2) == 0}
		if rng.Intn(3) > 0 {
			n.FractionDigits = uint8(1 + rng.Intn(18))
			lim := uint64(1<<63 - 1)
			if n.Negative {
				lim = 1 << 63
			}
			if n.Value > lim { // stay inside the decimal64 domain
				n.Value >>= 1
			}
		}
		return n
	}
	for i := 0; i < 12; i++ {
		a, b := rnd(), rnd()
		if rng.Intn(4) == 0 { // equal values written at different precisions
			b = a
			for b.FractionDigits < 18 && b.Value < (1<<63-1)/10 && rng.Intn(3) > 0 {
				b.FractionDigits++
				b.Value *= 10
			}
			if a.FractionDigits == 0 && b.FractionDigits != 0 && rng.Intn(2) == 0 {
				b = a
			}
		}
		emit(map[string]any{"ev": "cmp", "a": toNum(a), "b": toNum(b), "less": a.Less(b), "eq": a.Equal(b)})
		s := a.String()
		emit(map[string]any{"ev": "str", "a": toNum(a), "s": s})
		iv, err := a.Int()
		e := map[string]any{"ev": "int", "a": toNum(a), "ok": err == nil}
		if err == nil {
			e["neg"] = iv < 0
			if iv < 0 {
				e["mag"] = digits(uint64(-iv))
			} else {
				e["mag"] = digits(uint64(iv))
			}
		}
		emit(e)
		// a literal: a's digits with the point moved, parsed at a random precision
		k := rng.Intn(20)
		d := digits(a.Value)
		ip, fp := d, []int{}
		if k > 0 {
			if k >= len(d) {
				ip, fp = []int{0}, append(make([]int, k-len(d)), d...)
			} else {
				ip, fp = d[:len(d)-k], d[len(d)-k:]
			}
		}
		sign := []string{"", "+", "-"}[rng.Intn(3)]
		fd := rng.Intn(19)
		ls := sign + ds(ip)
		if len(fp) > 0 {
			ls += "." + ds(fp)
		}
		var got yang.Number
		if fd == 0 {
			got, err = yang.ParseInt(ls)
		} else {
			got, err = yang.ParseDecimal(ls, uint8(fd))
		}
		e = map[string]any{"ev": "parse", "sign": sign, "ip": ip, "fp": fp, "fd": fd, "ok": err == nil}
		if err == nil {
			e["r"] = toNum(got)
		}
		emit(e)
	}
	if q.Tid == 1 {
		v.Sample = map[string]any{"direction": "B", "first_events": v.Events[1:3]}
	}
	return v
}

func check(r *core.Run) {
	cfg, n := "MCNumbers_quick.cfg", 300
	if r.Tier == "thorough" {
		cfg, n = "MCNumbers_thorough.cfg", 5000
	}
	r.Rule = "A: all pairs of numbers over 18 boundary magnitudes (0, 1, powers of ten, 2^63-2 .. 2^63+5, 2^64-2 .. 2^64) x sign x fraction-digits inside the stated domain (Less, Equal), every such number (String, Int, FromInt, FromUint, print-parse round trip) and every literal obtained by placing the point at every position x sign x precision (ParseInt, ParseDecimal), results compared with the digit-sequence arithmetic of Numbers.tla; B: random 64-bit numbers and literals, every recorded result judged by NumbersTrace.tla. Non-trivial = pairs with different fraction digits or magnitudes above 10^17, literals with a fraction part."
	r.Exhaustive = true
	r.Assumptions = []string{"FromFloat (binary floating point) and hexadecimal/octal literals are outside the statement", "TLC is used as an exact evaluator of digit-sequence arithmetic"}
	r.DirectionA("numbers", core.TLCOpts{Module: "MCNumbers", Cfg: cfg, Workers: 16}, nil)
	r.DirectionB("numbers", n, core.TLCOpts{Module: "NumbersTrace", Cfg: "NumbersTrace.cfg"})
}
