// Package ranges binds Ranges.tla (C10) to range / length restrictions resolved
// by Process and to ParseRangesInt / ParseRangesDecimal / Contains.
package ranges

import (
	"encoding/json"
	"fmt"
	"math/big"
	"math/rand"
	"sort"
	"strings"
	"time"

	"github.com/openconfig/goyang/pkg/yang"
	"verifharness/core"
)

const (
	minSym = -999999
	maxSym = 999999
	dots   = 2000001
	bar    = 2000002
	junk   = 2000003
)

func init() {
	core.Register(&core.Family{Name: "ranges", Exec: exec, Classify: func(k byte, b []byte) string { return "ranges" }})
	core.Checks["C10"] = check
}

type rg struct {
	Lo int `json:"lo"`
	Hi int `json:"hi"`
}
type result struct {
	Ok bool `json:"ok"`
	R  []rg `json:"r"`
}
type cas struct {
	Mode    string   `json:"mode"`
	Parent  []rg     `json:"parent"`
	Steps   [][]rg   `json:"steps"`
	Toks    []int    `json:"toks"`
	Syntax  bool     `json:"syntax"`
	Results []result `json:"results"`
	Invalid bool     `json:"invalid"`
	Types   string   `json:"types,omitempty"` // "all": every fraction-digits
}

type typ struct {
	name        string
	lo, mid, hi *big.Int
	fd          int
	length      bool
}

func bi(s string) *big.Int { x, _ := new(big.Int).SetString(s, 10); return x }

func intTypes() []typ {
	return []typ{
		{"int8", bi("-128"), bi("0"), bi("127"), 0, false},
		{"int16", bi("-32768"), bi("0"), bi("32767"), 0, false},
		{"int32", bi("-2147483648"), bi("0"), bi("2147483647"), 0, false},
		{"int64", bi("-9223372036854775808"), bi("0"), bi("9223372036854775807"), 0, false},
		{"uint8", bi("0"), bi("128"), bi("255"), 0, false},
		{"uint16", bi("0"), bi("32768"), bi("65535"), 0, false},
		{"uint32", bi("0"), bi("2147483648"), bi("4294967295"), 0, false},
		{"uint64", bi("0"), bi("9223372036854775808"), bi("18446744073709551615"), 0, false},
		{"string", bi("0"), bi("9223372036854775808"), bi("18446744073709551615"), 0, true},
		{"binary", bi("0"), bi("4294967296"), bi("18446744073709551615"), 0, true},
	}
}

func decType(fd int) typ {
	return typ{"decimal64", bi("-9223372036854775808"), bi("0"), bi("9223372036854775807"), fd, false}
}

func typesFor(all bool) []typ {
	ts := intTypes()
	fds := []int{1, 2, 17, 18}
	if all {
		fds = nil
		for i := 1; i <= 18; i++ {
			fds = append(fds, i)
		}
	}
	for _, fd := range fds {
		ts = append(ts, decType(fd))
	}
	return ts
}

// gamma embeds the three clusters of the model domain at the type's bounds.
func (t typ) gamma(v int) *big.Int {
	two64 := new(big.Int).Lsh(big.NewInt(1), 64)
	switch {
	case v >= 25 || v <= -5:
		// far outside every type: a magnitude of 2^64 or more, chosen so that a reading that wraps around lands inside
		// the type; for decimal64 a whole number, so that it can be written with few digits ("20" at fraction-digits 18)
		far := new(big.Int).Add(t.hi, two64)
		if t.fd > 0 {
			p := new(big.Int).Exp(big.NewInt(10), big.NewInt(int64(t.fd)), nil)
			q := new(big.Int).Div(two64, p)
			far = q.Add(q, big.NewInt(2)).Mul(q, p)
		}
		if v <= -5 {
			if t.fd > 0 {
				return far.Neg(far)
			}
			return new(big.Int).Sub(t.lo, two64)
		}
		return far
	case v <= 5:
		return new(big.Int).Add(t.lo, big.NewInt(int64(v)))
	case v <= 16:
		return new(big.Int).Add(t.mid, big.NewInt(int64(v-11)))
	default:
		return new(big.Int).Add(t.hi, big.NewInt(int64(v-22)))
	}
}

// short: write decimals without trailing fraction zeros ("20" instead of "20.000")
var short bool

// negZero: write the integer zero as "-0" (a legal integer-value; it denotes 0)
var negZero bool

func (t typ) lit(x *big.Int) string {
	if t.fd == 0 {
		if negZero && x.Sign() == 0 && t.lo.Sign() < 0 {
			return "-0"
		}
		return x.String()
	}
	neg := x.Sign() < 0
	d := new(big.Int).Abs(x).String()
	for len(d) <= t.fd {
		d = "0" + d
	}
	s := d[:len(d)-t.fd] + "." + d[len(d)-t.fd:]
	if short {
		s = strings.TrimRight(s, "0")
		s = strings.TrimSuffix(s, ".")
	}
	if neg {
		s = "-" + s
	}
	return s
}

func (t typ) sym(v int) string {
	switch v {
	case minSym:
		return "min"
	case maxSym:
		return "max"
	}
	return t.lit(t.gamma(v))
}

func (t typ) rangeStr(rs []rg, sep string) string {
	var p []string
	for _, r := range rs {
		if r.Lo == r.Hi {
			p = append(p, t.sym(r.Lo))
		} else {
			p = append(p, t.sym(r.Lo)+".."+t.sym(r.Hi))
		}
	}
	return strings.Join(p, sep)
}

func (t typ) tokStr(toks []int, sp string) string {
	var sb strings.Builder
	isB := func(k int) bool { return k < 2000000 || k == junk } // a junk spelling is a word too
	for i, k := range toks {
		if i > 0 {
			if isB(k) && isB(toks[i-1]) {
				sb.WriteString(" ") // two bounds in a row stay two tokens
			}
			sb.WriteString(sp)
		}
		switch k {
		case dots:
			sb.WriteString("..")
		case bar:
			sb.WriteString("|")
		case junk:
			if t.fd > 0 {
				sb.WriteString(junkDec[(i+len(toks))%len(junkDec)])
			} else {
				sb.WriteString(junkInt[(i+len(toks)+len(t.name))%len(junkInt)])
			}
		default:
			sb.WriteString(t.sym(k))
		}
	}
	return sb.String()
}

// spellings that are not a range-boundary of RFC 7950 (integer-value / decimal-value / min / max)
var (
	junkInt = []string{"?", "0x1", "+1", "1_0", "0b1", "0o7", "1e1", "1.0", "MAX", "Min"}
	junkDec = []string{"?", ".5", "5.", "-.5", "+1.5", "1.5.", "0x1.0", "1_0.0", "1e1", "max."}
)

func num(n yang.Number) *big.Int {
	x := new(big.Int).SetUint64(n.Value)
	if n.Negative {
		x.Neg(x)
	}
	return x
}

func showYR(yr yang.YangRange) string {
	var p []string
	for _, r := range yr {
		p = append(p, num(r.Min).String()+".."+num(r.Max).String())
	}
	return strings.Join(p, "|")
}

func (t typ) showModel(rs []rg) string {
	var p []string
	for _, r := range rs {
		p = append(p, t.gamma(r.Lo).String()+".."+t.gamma(r.Hi).String())
	}
	return strings.Join(p, "|")
}

func isFull(p []rg) bool { return len(p) == 1 && p[0].Lo == 0 && p[0].Hi == 22 }

// module renders parent and chain as typedefs with one leaf per step.
func (t typ) module(parent []rg, steps []string) string {
	kw := "range"
	if t.length {
		kw = "length"
	}
	var sb strings.Builder
	sb.WriteString("module m { namespace \"urn:m\"; prefix m;\n")
	fmt.Fprintf(&sb, " typedef t0 { type %s {", t.name)
	if t.fd > 0 {
		fmt.Fprintf(&sb, " fraction-digits %d;", t.fd)
	}
	if !isFull(parent) {
		fmt.Fprintf(&sb, " %s \"%s\";", kw, t.rangeStr(parent, " | "))
	}
	sb.WriteString(" } }\n")
	for i, s := range steps {
		fmt.Fprintf(&sb, " typedef t%d { type t%d { %s \"%s\"; } }\n", i+1, i, kw, s)
		fmt.Fprintf(&sb, " leaf l%d { type t%d; }\n", i+1, i+1)
	}
	sb.WriteString("}\n")
	return sb.String()
}

// unionModule: the chain's typedefs up to the last step; the last restriction appears only as the second
// member type of a union, after an unrestricted member of the same type.
func (t typ) unionModule(parent []rg, steps []string) string {
	kw := "range"
	if t.length {
		kw = "length"
	}
	full := t.module(parent, steps[:len(steps)-1])
	full = strings.TrimSuffix(full, "}\n")
	n := len(steps) - 1
	return full + fmt.Sprintf(" leaf lu { type union { type t%d; type t%d { %s \"%s\"; } } }\n}\n", n, n, kw, steps[len(steps)-1])
}

func has(rs []rg, sym int) bool {
	for _, r := range rs {
		if r.Lo == sym || r.Hi == sym {
			return true
		}
	}
	return false
}

func exec(kind byte, body []byte) *core.Verdict {
	if kind == 'B' {
		return gen(body)
	}
	var c cas
	if err := json.Unmarshal(body, &c); err != nil {
		return &core.Verdict{Infra: "case: " + err.Error()}
	}
	v := &core.Verdict{OK: true, Class: c.Mode}
	allOK := len(c.Results) > 0
	for _, r := range c.Results {
		allOK = allOK && r.Ok
	}
	if c.Mode == "parts" {
		v.NT = len(c.Steps) > 1 || len(c.Steps[0]) > 1
	} else {
		v.NT = len(c.Toks) > 2
	}
	if c.Invalid {
		v.Class += "-rfc-invalid-parts"
	}
	types := typesFor(c.Types == "all")
	for ti, t := range types {
		var steps []string
		if c.Mode == "parts" {
			for _, s := range c.Steps {
				steps = append(steps, t.rangeStr(s, []string{" | ", "|", " |"}[ti%3]))
			}
		} else {
			steps = []string{t.tokStr(c.Toks, []string{"", " "}[ti%2])}
		}
		short = ti%2 == 1
		negZero = ti%2 == 0
		for si := range steps { // (rendered again under the literal style of this type)
			if c.Mode == "parts" {
				steps[si] = t.rangeStr(c.Steps[si], []string{" | ", "|", " |"}[ti%3])
			}
		}
		text := t.module(c.Parent, steps)
		if ti%3 == 0 && len(steps) > 0 {
			// placement inside a union: the same restriction must be judged the same way
			utext := t.unionModule(c.Parent, steps)
			ums := yang.NewModules()
			if err := ums.Parse(utext, "m.yang"); err != nil {
				return &core.Verdict{Infra: "rendered module does not parse: " + err.Error() + "\n" + utext}
			}
			uerrs := ums.Process()
			v.N++
			if len(uerrs) == 0 && !allOK {
				v.OK, v.Sig = false, "accepts-invalid-in-union"
				v.Detail = fmt.Sprintf("%s fraction-digits=%d: the restriction is invalid but as a union member type it is accepted without error\n%s", t.name, t.fd, utext)
				return v
			}
			if len(uerrs) > 0 && allOK && !c.Invalid {
				v.OK, v.Sig = false, "rejects-valid-in-union"
				v.Detail = fmt.Sprintf("%s fraction-digits=%d: valid restriction rejected as a union member type: %v\n%s", t.name, t.fd, uerrs, utext)
				return v
			}
		}
		if ti%3 == 1 && len(steps) > 0 {
			// placement in a deviation: the replacement type of 'deviate replace' carries the last restriction
			kw := "range"
			if t.length {
				kw = "length"
			}
			n := len(steps) - 1
			base := strings.TrimSuffix(t.module(c.Parent, steps[:n]), "}\n") + fmt.Sprintf(" leaf ld { type t%d; }\n}\n", n)
			dv := fmt.Sprintf("module dv { namespace \"urn:dv\"; prefix dv; import m { prefix m; }\n deviation \"/m:ld\" { deviate replace { type m:t%d { %s \"%s\"; } } }\n}\n", n, kw, steps[n])
			dms := yang.NewModules()
			if err := dms.Parse(base, "m.yang"); err != nil {
				return &core.Verdict{Infra: "rendered module does not parse: " + err.Error() + "\n" + base}
			}
			if err := dms.Parse(dv, "dv.yang"); err != nil {
				return &core.Verdict{Infra: "rendered module does not parse: " + err.Error() + "\n" + dv}
			}
			derrs := dms.Process()
			v.N++
			if len(derrs) == 0 && !allOK {
				v.OK, v.Sig = false, "accepts-invalid-in-deviation"
				v.Detail = fmt.Sprintf("%s fraction-digits=%d: the restriction is invalid but as the replacement type of a deviation it is accepted without error\n%s%s", t.name, t.fd, base, dv)
				return v
			}
			if len(derrs) > 0 && allOK && !c.Invalid {
				v.OK, v.Sig = false, "rejects-valid-in-deviation"
				v.Detail = fmt.Sprintf("%s fraction-digits=%d: valid restriction rejected as the replacement type of a deviation: %v\n%s%s", t.name, t.fd, derrs, base, dv)
				return v
			}
			if len(derrs) == 0 && allOK {
				if l := yang.ToEntry(dms.Modules["m"]).Dir["ld"]; l != nil && l.Type != nil {
					yr := l.Type.Range
					if t.length {
						yr = l.Type.Length
					}
					if got, w := showYR(yr), t.showModel(c.Results[len(c.Results)-1].R); got != w {
						v.OK, v.Sig = false, "set-differs-in-deviation"
						v.Detail = fmt.Sprintf("%s fraction-digits=%d: deviated leaf: specification %s, library %s\n%s%s", t.name, t.fd, w, got, base, dv)
						return v
					}
				}
			}
		}
		v.N++
		ms := yang.NewModules()
		if err := ms.Parse(text, "m.yang"); err != nil {
			return &core.Verdict{Infra: "rendered module does not parse: " + err.Error() + "\n" + text}
		}
		errs := ms.Process()
		fail := func(sig, f string, a ...any) *core.Verdict {
			v.OK, v.Sig = false, sig
			v.Detail = fmt.Sprintf("%s fraction-digits=%d: ", t.name, t.fd) + fmt.Sprintf(f, a...) + "\n" + text
			return v
		}
		if len(errs) > 0 {
			if allOK {
				if c.Invalid {
					v.Out = true // rejecting parts that RFC 7950 forbids is not a violation
					continue
				}
				return fail("rejects-valid", "the restriction denotes a subset of its parent but Process reports %v", errs)
			}
			continue
		}
		if !allOK {
			what := "admits values outside the parent or has descending bounds"
			if c.Mode == "toks" && !c.Syntax {
				what = "is not of the form part ('|' part)*"
			}
			return fail("accepts-invalid", "the restriction %s but Process reports no error", what)
		}
		e := yang.ToEntry(ms.Modules["m"])
		for k, want := range c.Results {
			l := e.Dir[fmt.Sprintf("l%d", k+1)]
			if l == nil || l.Type == nil {
				return fail("no-leaf", "leaf l%d missing", k+1)
			}
			yr := l.Type.Range
			if t.length {
				yr = l.Type.Length
			}
			if got, w := showYR(yr), t.showModel(want.R); got != w {
				return fail("set-differs", "step %d: specification %s, library %s", k+1, w, got)
			}
			for _, r := range yr {
				if int(r.Min.FractionDigits) != t.fd || int(r.Max.FractionDigits) != t.fd {
					return fail("fraction-digits-differ", "step %d: bounds %v carry the wrong fraction-digits", k+1, yr)
				}
			}
			// the public algebra on the resolved sets
			par := e.Dir["l1"].Type.Range
			_ = par
			s := yr.String()
			var back yang.YangRange
			var err error
			if t.fd > 0 {
				back, err = yang.ParseRangesDecimal(s, uint8(t.fd))
			} else {
				back, err = yang.ParseRangesInt(s)
			}
			if err != nil || !back.Equal(yr) || !yr.Equal(back) {
				return fail("print-parse", "step %d: %q parses back to %v (%v)", k+1, s, back, err)
			}
			if !yr.Contains(yr) {
				return fail("contains-self", "step %d: %v does not contain itself", k+1, yr)
			}
			if k > 0 {
				prev := e.Dir[fmt.Sprintf("l%d", k)].Type
				pr := prev.Range
				if t.length {
					pr = prev.Length
				}
				if !pr.Contains(yr) {
					return fail("contains-parent", "step %d: parent %v does not contain %v", k+1, pr, yr)
				}
			}
		}
		// the exported parsers on a restriction of the full range without min/max
		if c.Mode == "parts" && isFull(c.Parent) && len(c.Steps) == 1 && !has(c.Steps[0], minSym) && !has(c.Steps[0], maxSym) && !t.length {
			var got yang.YangRange
			var err error
			if t.fd > 0 {
				got, err = yang.ParseRangesDecimal(steps[0], uint8(t.fd))
			} else {
				got, err = yang.ParseRangesInt(steps[0])
			}
			if err != nil {
				if !c.Invalid {
					return fail("parser-rejects-valid", "ParseRanges(%q): %v", steps[0], err)
				}
			} else if g, w := showYR(got), t.showModel(c.Results[0].R); g != w {
				return fail("parser-set-differs", "ParseRanges(%q): specification %s, library %s", steps[0], w, g)
			}
		}
		if ti == 7 && len(c.Steps) == 1 && len(c.Steps[0]) == 2 && c.Steps[0][0].Lo == 21 && len(c.Parent) == 2 {
			v.Sample = map[string]any{"yang": text, "expected_accept": allOK, "expected_set": t.showModel(c.Results[0].R)}
		}
	}
	return v
}

// gen: a random 64-bit derivation chain on a random type; bounds are
// rank-compressed (order preserved, adjacency preserved) before the events
// are written, which is sound because the algorithm uses only <, = and +1.
func gen(body []byte) *core.Verdict {
	var q struct {
		Seed int64
		Tid  int
	}
	json.Unmarshal(body, &q)
	rng := rand.New(rand.NewSource(q.Seed*15485863 + int64(q.Tid)))
	all := typesFor(true)
	t := all[rng.Intn(len(all))]
	short, negZero = rng.Intn(2) == 0, rng.Intn(3) == 0 // the spelling of this trace's literals (a function of seed and tid alone)
	v := &core.Verdict{OK: true, Class: "generated", NT: true}
	span := new(big.Int).Sub(t.hi, t.lo)
	rndVal := func(pool []*big.Int) *big.Int {
		switch k := rng.Intn(10); {
		case k < 3 && len(pool) > 0:
			p := pool[rng.Intn(len(pool))]
			return new(big.Int).Add(p, big.NewInt(int64(rng.Intn(5)-2)))
		case k < 5:
			return new(big.Int).Add(t.lo, big.NewInt(int64(rng.Intn(4))))
		case k < 7:
			return new(big.Int).Sub(t.hi, big.NewInt(int64(rng.Intn(4))))
		default:
			x := new(big.Int).Rand(rng, new(big.Int).Add(span, big.NewInt(1)))
			return x.Add(x, t.lo)
		}
	}
	clamp := func(x *big.Int) *big.Int {
		// keep literals parseable for the type's parser (uint64 magnitude, int64 mantissa)
		lo, hi := t.lo, t.hi
		if x.Cmp(lo) < 0 {
			return new(big.Int).Set(lo)
		}
		if x.Cmp(hi) > 0 {
			return new(big.Int).Set(hi)
		}
		return x
	}
	type part struct{ lo, hi *big.Int } // nil = min / max keyword
	var pool []*big.Int
	nsteps := 1 + rng.Intn(3)
	var chain [][]part
	for s := 0; s < nsteps; s++ {
		var ps []part
		for i, n := 0, 1+rng.Intn(4); i < n; i++ {
			a, b := clamp(rndVal(pool)), clamp(rndVal(pool))
			if a.Cmp(b) > 0 && rng.Intn(8) > 0 {
				a, b = b, a
			}
			p := part{a, b}
			if rng.Intn(4) == 0 {
				p.hi = a
			}
			if rng.Intn(8) == 0 {
				p.lo = nil
			}
			if rng.Intn(8) == 0 {
				p.hi = nil
			}
			if p.lo != nil {
				pool = append(pool, p.lo)
			}
			if p.hi != nil {
				pool = append(pool, p.hi)
			}
			ps = append(ps, p)
		}
		if k := int64(3 + rng.Intn(3)); rng.Intn(6) == 0 && span.Cmp(big.NewInt(3*k+2)) > 0 {
			// a comb and its bridge: k two-value parts with a one-value gap between neighbours, and one more part that fills
			// every gap at once (it touches the first and the last tooth, covers the others), written anywhere among them
			room := new(big.Int).Sub(span, big.NewInt(3*k+1))
			x := new(big.Int).Rand(rng, room)
			x.Add(x, t.lo)
			ps = ps[:0]
			for i := int64(0); i < k; i++ {
				lo := new(big.Int).Add(x, big.NewInt(3*i))
				ps = append(ps, part{lo, new(big.Int).Add(lo, big.NewInt(1))})
			}
			bridge := part{new(big.Int).Add(x, big.NewInt(2)), new(big.Int).Add(x, big.NewInt(3*(k-1)-1))}
			at := rng.Intn(len(ps) + 1)
			if rng.Intn(2) == 0 {
				at = len(ps)
			}
			ps = append(ps[:at], append([]part{bridge}, ps[at:]...)...)
			for _, p := range ps {
				pool = append(pool, p.lo, p.hi)
			}
		} else if rng.Intn(3) > 0 { // mostly ascending, as the RFC wants
			sort.SliceStable(ps, func(i, j int) bool {
				if ps[i].lo == nil || ps[j].lo == nil {
					return ps[i].lo == nil && ps[j].lo != nil
				}
				return ps[i].lo.Cmp(ps[j].lo) < 0
			})
		}
		chain = append(chain, ps)
	}
	kw := "range"
	if t.length {
		kw = "length"
	}
	str := func(ps []part) string {
		var out []string
		for _, p := range ps {
			lo, hi := "min", "max"
			if p.lo != nil {
				lo = t.lit(p.lo)
			}
			if p.hi != nil {
				hi = t.lit(p.hi)
			}
			if p.lo != nil && p.hi != nil && p.lo.Cmp(p.hi) == 0 {
				out = append(out, lo)
			} else {
				out = append(out, lo+".."+hi)
			}
		}
		return strings.Join(out, " | ")
	}
	// executed step by step so that the first failing step is identified
	var sb strings.Builder
	sb.WriteString("module m { namespace \"urn:m\"; prefix m;\n")
	fmt.Fprintf(&sb, " typedef t0 { type %s {", t.name)
	if t.fd > 0 {
		fmt.Fprintf(&sb, " fraction-digits %d;", t.fd)
	}
	sb.WriteString(" } }\n")
	head := sb.String()
	// rank compression over every number of the trace
	vals := []*big.Int{t.lo, t.hi}
	for _, ps := range chain {
		for _, p := range ps {
			if p.lo != nil {
				vals = append(vals, p.lo)
			}
			if p.hi != nil {
				vals = append(vals, p.hi)
			}
		}
	}
	emit := func(m map[string]any) {
		b, _ := json.Marshal(m)
		v.Events = append(v.Events, b)
	}
	parent := []*big.Int{t.lo, t.hi} // flat lo,hi list of the current parent set
	okSoFar := true
	bodyText := head
	type ev struct {
		parent []*big.Int
		parts  []part
		ok     bool
		result []*big.Int
	}
	var evs []ev
	for s := 0; s < nsteps && okSoFar; s++ {
		step := fmt.Sprintf(" typedef t%d { type t%d { %s \"%s\"; } }\n leaf l%d { type t%d; }\n", s+1, s, kw, str(chain[s]), s+1, s+1)
		text := bodyText + step + "}\n"
		ms := yang.NewModules()
		if err := ms.Parse(text, "m.yang"); err != nil {
			return &core.Verdict{Infra: "generated module does not parse: " + err.Error()}
		}
		errs := ms.Process()
		e := ev{parent: parent, parts: chain[s], ok: len(errs) == 0}
		if e.ok {
			l := yang.ToEntry(ms.Modules["m"]).Dir[fmt.Sprintf("l%d", s+1)]
			yr := l.Type.Range
			if t.length {
				yr = l.Type.Length
			}
			for _, r := range yr {
				e.result = append(e.result, num(r.Min), num(r.Max))
			}
			vals = append(vals, e.result...)
			parent = e.result
			bodyText += step
		} else {
			okSoFar = false
		}
		evs = append(evs, e)
	}
	sort.Slice(vals, func(i, j int) bool { return vals[i].Cmp(vals[j]) < 0 })
	rank := map[string]int{}
	r := 0
	for i, x := range vals {
		if i > 0 {
			switch d := new(big.Int).Sub(x, vals[i-1]); {
			case d.Sign() == 0:
			case d.Cmp(big.NewInt(1)) == 0:
				r++
			default:
				r += 2
			}
		}
		rank[x.String()] = r
	}
	rk := func(x *big.Int, sym int) int {
		if x == nil {
			return sym
		}
		return rank[x.String()]
	}
	pairs := func(flat []*big.Int) [][]int {
		out := [][]int{}
		for i := 0; i+1 < len(flat); i += 2 {
			out = append(out, []int{rank[flat[i].String()], rank[flat[i+1].String()]})
		}
		return out
	}
	emit(map[string]any{"ev": "reset", "tid": q.Tid, "type": t.name, "fd": t.fd})
	for _, e := range evs {
		parts := [][]int{}
		for _, p := range e.parts {
			parts = append(parts, []int{rk(p.lo, minSym), rk(p.hi, maxSym)})
		}
		emit(map[string]any{"ev": "restrict", "parent": pairs(e.parent), "parts": parts, "ok": e.ok, "result": pairs(e.result)})
	}
	if q.Tid <= 2 {
		v.Sample = map[string]any{"direction": "B", "type": t.name, "fraction_digits": t.fd, "chain": func() []string {
			var s []string
			for _, ps := range chain {
				s = append(s, str(ps))
			}
			return s
		}()}
	}
	return v
}

func check(r *core.Run) {
	n := 400
	if r.Tier == "thorough" {
		n = 6000
	}
	r.Rule = "A: every restriction of <= MaxParts parts over 9 boundary points (clusters at the lower bound, inside, at the upper bound) and min/max, against 9 parent sets, plus every token sequence of the syntax layer and derivation chains of 3 steps; each model case is embedded at the bounds of int8..uint64, string and binary length and decimal64 (fraction-digits 1,2,17,18 quick; 1..18 thorough) and resolved by Process (typedef chain), and the resolved sets go through String/ParseRanges*/Contains/Equal; B: random 64-bit chains on random types, rank-compressed, judged by RangesTrace.tla. Non-trivial = more than one part, step or two tokens."
	r.Exhaustive = true
	r.Assumptions = []string{"written parts that are not ascending and disjoint (RFC 7950 9.2.4 forbids them): a right result is required when they are accepted, their acceptance is not", "the embedding is sound because the algorithm uses only <, = and +1 quantum"}
	all := r.Tier == "thorough"
	mark := func(i int64, body string) bool { return true }
	_ = mark
	run := func(cfg string) {
		f := core.Families["ranges"]
		_ = f
		r.DirectionA("ranges", core.TLCOpts{Module: "MCRanges", Cfg: cfg, Workers: 16, Timeout: 0}, func(i int64, body string) bool { return true })
	}
	if all {
		core.CaseSuffix = `,"types":"all"}`
	}
	run("MCRanges_quick.cfg")
	run("MCRanges_chain.cfg")
	run("MCRanges_far.cfg")
	if all {
		// 2.7 M model cases x 28 concrete types: a seed-chosen third of them
		k := r.Seed % 3
		r.Exhaustive = false
		r.Extra["thorough_sampling"] = "MCRanges_thorough.cfg: cases with index mod 3 = seed mod 3"
		r.DirectionA("ranges", core.TLCOpts{Module: "MCRanges", Cfg: "MCRanges_thorough.cfg", Workers: 16, Timeout: 30 * time.Minute, HeapGB: 16}, func(i int64, body string) bool { return i%3 == k })
	}
	core.CaseSuffix = ""
	r.DirectionB("ranges", n, core.TLCOpts{Module: "RangesTrace", Cfg: "RangesTrace.cfg"})
}
