// Package enums binds Enums.tla (C14) to EnumType and to enumeration / bits
// types resolved by Process.
package enums

import (
	"encoding/json"
	"fmt"
	"math/rand"
	"sort"
	"strings"

	"github.com/openconfig/goyang/pkg/yang"
	"verifharness/core"
)

const none = 7777  // NONE of the design configurations
const odd = 777777 // ODD: a value spelled in a way RFC 7950 does not allow
const far = 5000   // a literal of 64-bit magnitude or beyond

// oddSpellings of a small in-range value: all must be refused.
var oddSpellings = []string{"0x1", "+1", "1_0", "0b1", "0o7", "1.0", "1e1", "0x", "१"}

// farLiteral spells the far-out values so that a reading that wraps around at 64 bits lands inside the legal range.
// The bounds of RFC 7950 9.6.4.2 / 9.7.4.2, written out here: the library's own constants are part of what is checked.
const (
	minEnum   = -2147483648
	maxEnum   = 2147483647
	maxBitPos = 4294967295
)

func farLiteral(v int64, i int) string {
	if v > 0 {
		return []string{"18446744073709551615", "18446744071562067968", "9223372036854775808", "36893488147419103239"}[i%4]
	}
	return []string{"-18446744073709551609", "-18446744073709551611", "-9223372036854775809", "-36893488147419103225"}[i%4]
}

const noneB = 999999 // NONE of the trace configuration

func init() {
	core.Register(&core.Family{Name: "enums", Exec: exec, Classify: func(k byte, b []byte) string { return "enums" }})
	core.Checks["C14"] = check
}

type op struct {
	Name string `json:"name"`
	Val  int64  `json:"val"`
}
type cas struct {
	Ops     []op   `json:"ops"`
	Oks     []bool `json:"oks"`
	Members []op   `json:"members"`
	Uniq    bool   `json:"uniq"`
}

// gamma embeds the model's clusters at the real bounds.
func gamma(v int64, uniq bool) int64 {
	min, max := int64(minEnum), int64(maxEnum)
	if !uniq {
		min, max = 0, maxBitPos
	}
	switch {
	case uniq && v <= -900:
		return min + (v + 1000)
	case v >= 900:
		return max + (v - 1000)
	case !uniq && v >= 400:
		return int64(maxEnum) + (v - 500) // an inner cluster for bits: around 2^31-1
	}
	return v
}

func newType(uniq bool) *yang.EnumType {
	if uniq {
		return yang.NewEnumType()
	}
	return yang.NewBitfield()
}

func pairs(m map[string]int64) string {
	var s []string
	for n, v := range m {
		s = append(s, fmt.Sprintf("%s=%d", n, v))
	}
	sort.Strings(s)
	return strings.Join(s, ",")
}

// module renders the member statements as a YANG module.
func module(ops []op, lits []string, uniq bool) string {
	var sb strings.Builder
	sb.WriteString("module m { namespace \"urn:m\"; prefix m;\n leaf l { type ")
	if uniq {
		sb.WriteString("enumeration {\n")
	} else {
		sb.WriteString("bits {\n")
	}
	for i, o := range ops {
		kw, vk := "enum", "value"
		if !uniq {
			kw, vk = "bit", "position"
		}
		if lits[i] == "" {
			fmt.Fprintf(&sb, "  %s %s;\n", kw, o.Name)
		} else {
			fmt.Fprintf(&sb, "  %s %s { %s %s; }\n", kw, o.Name, vk, lits[i])
		}
	}
	sb.WriteString(" } }\n}\n")
	return sb.String()
}

func process(text string) (*yang.EnumType, bool, []error) {
	ms := yang.NewModules()
	if err := ms.Parse(text, "m.yang"); err != nil {
		return nil, false, []error{err}
	}
	errs := ms.Process()
	// a second run over the same set reports the same
	if again := ms.Process(); len(again) != len(errs) {
		return nil, false, append(errs, fmt.Errorf("SECOND-RUN-DIFFERS: the first Process reports %d errors, the second %d", len(errs), len(again)))
	}
	if len(errs) > 0 {
		return nil, false, errs
	}
	e := yang.ToEntry(ms.Modules["m"])
	l := e.Dir["l"]
	if l == nil || l.Type == nil {
		return nil, false, []error{fmt.Errorf("no leaf")}
	}
	if l.Type.Enum != nil {
		return l.Type.Enum, true, nil
	}
	return l.Type.Bit, true, nil
}

func exec(kind byte, body []byte) *core.Verdict {
	if kind == 'B' {
		return gen(body)
	}
	var c cas
	if err := json.Unmarshal(body, &c); err != nil {
		return &core.Verdict{Infra: "case: " + err.Error()}
	}
	route := "enum"
	if !c.Uniq {
		route = "bits"
	}
	v := &core.Verdict{OK: true, Class: route, N: 2}
	// outside the claim: two bits sharing a position (the statement neither
	// requires nor forbids them)
	if !c.Uniq {
		seen := map[int64]bool{}
		for _, m := range c.Members {
			if seen[m.Val] {
				v.Out = true
			}
			seen[m.Val] = true
		}
	}
	nImplicit, allOK := 0, true
	for i, o := range c.Ops {
		if o.Val == none {
			nImplicit++
		}
		allOK = allOK && c.Oks[i]
	}
	v.NT = len(c.Ops) >= 2 && nImplicit >= 1
	want := map[string]int64{}
	for _, m := range c.Members {
		want[m.Name] = gamma(m.Val, c.Uniq)
	}
	fail := func(sig, f string, a ...any) *core.Verdict {
		v.OK, v.Sig, v.Detail = false, sig, fmt.Sprintf("%s ops=%v: ", route, c.Ops)+fmt.Sprintf(f, a...)
		return v
	}
	// route 1: the API (values that do not fit the API's int64 are for the YANG route only)
	api := true
	for _, o := range c.Ops {
		if o.Val == odd || o.Val == far || o.Val == -far {
			api = false
		}
	}
	e := newType(c.Uniq)
	for i, o := range c.Ops {
		if !api {
			break
		}
		var err error
		if o.Val == none {
			err = e.SetNext(o.Name)
		} else {
			err = e.Set(o.Name, gamma(o.Val, c.Uniq))
		}
		if (err == nil) != c.Oks[i] {
			return fail("api-accept-differs", "member #%d %s: specification accepts=%v, library error=%v", i+1, o.Name, c.Oks[i], err)
		}
	}
	if got := pairs(e.NameMap()); api && got != pairs(want) {
		return fail("api-values-differ", "specification %s, library %s", pairs(want), got)
	}
	if api {
		// what the accessors hand out is the caller's to change: the type itself must not move
		nm, vm := e.NameMap(), e.ValueMap()
		nm["zz-sentinel"] = 12345
		vm[12345] = "zz-sentinel"
		for n := range want {
			delete(nm, n)
			break
		}
		for _, n := range e.Names() {
			_ = n
		}
		if ns := e.Names(); len(ns) > 0 {
			ns[0] = "zz-overwritten"
		}
		if vs := e.Values(); len(vs) > 0 {
			vs[0] = 98765
		}
		if got := pairs(e.NameMap()); got != pairs(want) || e.IsDefined("zz-sentinel") || e.Name(12345) != "" {
			return fail("accessor-result-aliases-the-type", "after changing the maps and slices returned by NameMap / ValueMap / Names / Values the type reads %s, specification %s", got, pairs(want))
		}
	}
	if c.Uniq && api {
		nm, vm := e.NameMap(), e.ValueMap()
		if len(nm) != len(vm) {
			return fail("views-not-inverse", "NameMap %v ValueMap %v", nm, vm)
		}
		for n, x := range nm {
			if vm[x] != n || e.Name(x) != n || e.Value(n) != x || !e.IsDefined(n) {
				return fail("views-not-inverse", "NameMap %v ValueMap %v", nm, vm)
			}
		}
	}
	if api && (len(e.Names()) != len(want) || len(e.Values()) != len(want)) {
		return fail("names-values-length", "Names %v Values %v", e.Names(), e.Values())
	}
	// route 2: a YANG type through Process (rejected as a whole when any member is)
	lits := make([]string, len(c.Ops))
	for i, o := range c.Ops {
		switch {
		case o.Val == none:
		case o.Val == odd:
			lits[i] = oddSpellings[(i+len(c.Ops)+len(o.Name))%len(oddSpellings)]
		case o.Val == far || o.Val == -far:
			lits[i] = farLiteral(o.Val, i+len(c.Ops))
		default:
			lits[i] = fmt.Sprint(gamma(o.Val, c.Uniq))
			if c.Uniq && lits[i] == "0" && (i+len(c.Ops))%2 == 1 {
				lits[i] = "-0" // an integer-value may carry a sign: "-0" is zero (an enum value; a position has no sign)
			}
		}
	}
	text := module(c.Ops, lits, c.Uniq)
	et, ok, errs := process(text)
	for _, e := range errs {
		if strings.HasPrefix(e.Error(), "SECOND-RUN-DIFFERS") {
			return fail("second-process-differs", "%v\n%s", e, text)
		}
	}
	if ok != allOK {
		return fail("process-accept-differs", "specification accepts=%v, Process errors=%v\n%s", allOK, errs, text)
	}
	if ok {
		if et == nil {
			return fail("process-no-type", "no enum/bits type on the leaf\n%s", text)
		}
		if got := pairs(et.NameMap()); got != pairs(want) {
			return fail("process-values-differ", "specification %s, Process %s\n%s", pairs(want), got, text)
		}
	}
	// the same members with the values explicitly re-paired (rotated by one): another type, which a union keeps
	// next to the first one (ExplicitRule: every member gets exactly the value written)
	if ok && len(c.Members) >= 2 {
		kw, vk, tn := "enum", "value", "enumeration"
		if !c.Uniq {
			kw, vk, tn = "bit", "position", "bits"
		}
		rot := map[string]int64{}
		var a, b strings.Builder
		for i, m := range c.Members {
			nv := gamma(c.Members[(i+1)%len(c.Members)].Val, c.Uniq)
			rot[m.Name] = nv
			fmt.Fprintf(&a, " %s %s { %s %d; }", kw, m.Name, vk, gamma(m.Val, c.Uniq))
			fmt.Fprintf(&b, " %s %s { %s %d; }", kw, m.Name, vk, nv)
		}
		if pairs(rot) != pairs(want) {
			utext := fmt.Sprintf("module m { namespace \"urn:m\"; prefix m;\n leaf l { type union {\n  type %s {%s }\n  type %s {%s }\n } }\n}\n", tn, a.String(), tn, b.String())
			ms := yang.NewModules()
			if err := ms.Parse(utext, "m.yang"); err != nil {
				return fail("union-parse", "%v\n%s", err, utext)
			}
			if errs := ms.Process(); len(errs) > 0 {
				return fail("union-rejected", "two enumerations that pair the same names and values differently: %v\n%s", errs, utext)
			}
			l := yang.ToEntry(ms.Modules["m"]).Dir["l"]
			if l == nil || l.Type == nil || len(l.Type.Type) != 2 {
				n := -1
				if l != nil && l.Type != nil {
					n = len(l.Type.Type)
				}
				return fail("union-member-lost", "a union of two types that pair the same names and values differently has %d member types\n%s", n, utext)
			}
			for k, w := range []map[string]int64{want, rot} {
				et := l.Type.Type[k].Enum
				if !c.Uniq {
					et = l.Type.Type[k].Bit
				}
				if et == nil || pairs(et.NameMap()) != pairs(w) {
					return fail("union-member-values", "member type %d: expected %s\n%s", k+1, pairs(w), utext)
				}
			}
			if l.Type.Type[0].Equal(l.Type.Type[1]) {
				return fail("equal-ignores-pairing", "YangType.Equal holds for types that pair names and values differently\n%s", utext)
			}
		}
	}
	if len(c.Ops) == 3 && nImplicit == 2 && c.Ops[0].Val == -2 {
		v.Sample = map[string]any{"kind": route, "yang": text, "expected_accept": allOK, "expected_members": want}
	}
	return v
}

// gen: one random member sequence of up to 20 members with values drawn from
// the whole int64 range, executed on the API and through Process; values are
// rank-compressed (order preserved, distances up to 50 preserved exactly).
func gen(body []byte) *core.Verdict {
	var q struct {
		Seed int64
		Tid  int
	}
	json.Unmarshal(body, &q)
	rng := rand.New(rand.NewSource(q.Seed*7919 + int64(q.Tid)))
	uniq := rng.Intn(2) == 0
	min, max := int64(minEnum), int64(maxEnum)
	if !uniq {
		min, max = 0, maxBitPos
	}
	anchors := []int64{0, 1, -1, min, max, min - 1, max + 1, max - 1, min + 1, 1<<31 - 1, 1<<31 - 2, 7, 8, 100, -100, 1 << 31, 1<<32 - 2, 1 << 40, -(1 << 40), 1<<63 - 1, -1 << 63}
	n := 1 + rng.Intn(20)
	names := []string{"a", "b", "c", "d", "e", "f", "g", "h", "i", "j", "k", "l", "m", "n", "o", "p"}
	type mem struct {
		name     string
		implicit bool
		val      int64
	}
	var ms []mem
	for i := 0; i < n; i++ {
		m := mem{name: names[rng.Intn(len(names))]}
		if rng.Intn(10) > 0 && i < len(names) {
			m.name = names[i] // mostly distinct names
		}
		switch rng.Intn(5) {
		case 0, 1:
			m.implicit = true
		case 2:
			m.val = anchors[rng.Intn(len(anchors))]
		case 3:
			m.val = anchors[rng.Intn(11)] + int64(rng.Intn(5)) - 2
		default:
			if len(ms) > 0 && !ms[len(ms)-1].implicit {
				m.val = ms[len(ms)-1].val + int64(rng.Intn(4)) - 1
			} else {
				m.val = int64(rng.Intn(40)) - 5
			}
		}
		if !m.implicit && (m.val > 1<<62 || m.val < -(1<<62)) && rng.Intn(2) == 0 {
			m.val = anchors[rng.Intn(9)]
		}
		ms = append(ms, m)
	}
	// rank compression around zero
	set := map[int64]bool{0: true, min: true, max: true}
	for _, m := range ms {
		if !m.implicit {
			set[m.val] = true
		}
	}
	var vals []int64
	for x := range set {
		vals = append(vals, x)
	}
	sort.Slice(vals, func(i, j int) bool { return vals[i] < vals[j] })
	rank := map[int64]int64{}
	zi := sort.Search(len(vals), func(i int) bool { return vals[i] >= 0 })
	rank[0] = 0
	const G = 50
	dist := func(a, b int64) int64 { // b > a
		if d := uint64(b) - uint64(a); d < G {
			return int64(d)
		}
		return G
	}
	for i := zi + 1; i < len(vals); i++ {
		rank[vals[i]] = rank[vals[i-1]] + dist(vals[i-1], vals[i])
	}
	for i := zi - 1; i >= 0; i-- {
		rank[vals[i]] = rank[vals[i+1]] - dist(vals[i], vals[i+1])
	}
	v := &core.Verdict{OK: true, Class: "generated", NT: true, N: 2}
	emit := func(m map[string]any) {
		b, _ := json.Marshal(m)
		v.Events = append(v.Events, b)
	}
	view := func(e *yang.EnumType) {
		var ns, vs [][]any
		// un-rank is impossible for implicit values; rank them through their distance to a known value
		rk := func(x int64) int64 {
			if r, ok := rank[x]; ok {
				return r
			}
			// nearest known value below
			i := sort.Search(len(vals), func(i int) bool { return vals[i] > x }) - 1
			if i < 0 {
				return rank[vals[0]] - dist(x, vals[0])
			}
			return rank[vals[i]] + dist(vals[i], x)
		}
		for n, x := range e.NameMap() {
			ns = append(ns, []any{n, rk(x)})
		}
		for x, n := range e.ValueMap() {
			vs = append(vs, []any{rk(x), n})
		}
		sort.Slice(ns, func(i, j int) bool { return ns[i][0].(string) < ns[j][0].(string) })
		sort.Slice(vs, func(i, j int) bool { return vs[i][0].(int64) < vs[j][0].(int64) })
		if ns == nil {
			ns = [][]any{}
		}
		if vs == nil {
			vs = [][]any{}
		}
		emit(map[string]any{"ev": "view", "names": ns, "values": vs})
	}
	// execution 1: the API
	emit(map[string]any{"ev": "reset", "tid": q.Tid, "min": rank[min], "max": rank[max], "uniq": uniq})
	e := newType(uniq)
	for _, m := range ms {
		var err error
		val := int64(noneB)
		if m.implicit {
			err = e.SetNext(m.name)
		} else {
			err = e.Set(m.name, m.val)
			val = rank[m.val]
		}
		emit(map[string]any{"ev": "member", "name": m.name, "val": val, "ok": err == nil})
	}
	view(e)
	// execution 2: the same members as a YANG type; Process accepts iff every member is accepted
	ops := make([]op, len(ms))
	lits := make([]string, len(ms))
	for i, m := range ms {
		ops[i] = op{Name: m.name}
		if !m.implicit {
			lits[i] = fmt.Sprint(m.val)
		}
	}
	text := module(ops, lits, uniq)
	et, ok, _ := process(text)
	if ok && et != nil {
		// an accepted type: every member was accepted, in order, with the values of the view
		emit(map[string]any{"ev": "reset", "tid": q.Tid, "min": rank[min], "max": rank[max], "uniq": uniq})
		for _, m := range ms {
			val := int64(noneB)
			if !m.implicit {
				val = rank[m.val]
			}
			emit(map[string]any{"ev": "member", "name": m.name, "val": val, "ok": true})
		}
		view(et)
	} else {
		// a rejected type: the specification must reject at least one member; recorded as a single event
		emit(map[string]any{"ev": "reset", "tid": q.Tid, "min": rank[min], "max": rank[max], "uniq": uniq})
		var seq [][]any
		for _, m := range ms {
			val := int64(noneB)
			if !m.implicit {
				val = rank[m.val]
			}
			seq = append(seq, []any{m.name, val})
		}
		emit(map[string]any{"ev": "rejected", "members": seq})
	}
	if q.Tid == 1 {
		v.Sample = map[string]any{"direction": "B", "yang": text, "events": len(v.Events)}
	}
	return v
}

func check(r *core.Run) {
	tier := "quick"
	n := 300
	if r.Tier == "thorough" {
		tier, n = "thorough", 4000
	}
	r.Rule = "A: every member sequence up to the bound over 3 names x (implicit or a value from clusters around the minimum, zero and the maximum, also outside the range), for enumeration and for bits, embedded at the real int32 / uint32 bounds and executed both on NewEnumType/NewBitfield + Set/SetNext and as a YANG type through Process; B: random sequences of up to 20 members over the int64 range (rank-compressed) validated by EnumsTrace.tla. Non-trivial = at least two members of which one implicit."
	r.Exhaustive = true
	r.Assumptions = []string{"two bits sharing a position are outside the claim (the statement is silent)", "the embedding is sound because the algorithm uses only <, = and +1"}
	r.DirectionA("enums", core.TLCOpts{Module: "MCEnums", Cfg: "MCEnums_enum_" + tier + ".cfg", Workers: 16}, nil)
	r.DirectionA("enums", core.TLCOpts{Module: "MCEnums", Cfg: "MCEnums_bits_" + tier + ".cfg", Workers: 16}, nil)
	r.DirectionB("enums", n, core.TLCOpts{Module: "EnumsTrace", Cfg: "EnumsTrace.cfg"})
}
