//go:build verif

// Package conc binds Concurrency.tla (C19) to the lock-protected tables of
// yang.Modules: gated replay of TLC's schedules, free-running stress with
// recorded lock sections, and stress under the race detector.
package conc

import (
	"bytes"
	"encoding/json"
	"fmt"
	"math/rand"
	"os"
	"os/exec"
	"regexp"
	"runtime"
	"sort"
	"strconv"
	"strings"
	"sync"
	"time"

	"github.com/openconfig/goyang/pkg/yang"
	"verifharness/core"
	"verifharness/fam/session"
)

func init() {
	core.Register(&core.Family{Name: "conc", Exec: execCase, Classify: func(k byte, b []byte) string {
		switch k {
		case 'R':
			return "race-stress"
		case 'C':
			return "cold-start"
		case 'B':
			return "stress"
		}
		return "schedule"
	}, Recorded: true})
	core.Checks["C19"] = check
}

func goid() int64 {
	var buf [64]byte
	n := runtime.Stack(buf[:], false)
	f := bytes.Fields(buf[:n])
	id, _ := strconv.ParseInt(string(f[1]), 10, 64)
	return id
}

type section struct {
	Set  string `json:"set"`
	Kind string `json:"kind"`
}
type step struct {
	G       int    `json:"g"`
	Ev      string `json:"ev"`
	Kind    string `json:"kind"`
	Set     string `json:"set"`
	Blocked []int  `json:"blocked"`
}
type progmap map[int][]section

func (m *progmap) UnmarshalJSON(b []byte) error {
	*m = progmap{}
	if len(b) > 0 && b[0] == '[' { // a function with domain 1..n serialises as an array
		var a [][]section
		if err := json.Unmarshal(b, &a); err != nil {
			return err
		}
		for i, v := range a {
			(*m)[i+1] = v
		}
		return nil
	}
	var x map[string][]section
	if err := json.Unmarshal(b, &x); err != nil {
		return err
	}
	for k, v := range x {
		n, _ := strconv.Atoi(k)
		(*m)[n] = v
	}
	return nil
}

type cas struct {
	Prog  progmap `json:"prog"`
	Sched []step  `json:"sched"`
}

// the shared processed set
func sharedSet() (*yang.Modules, error) {
	ms := yang.NewModules()
	for _, id := range []string{"i1", "t2", "a3", "m4", "s4", "m6", "s6a", "s6b"} {
		if err := ms.Parse(session.Texts[id], id+".yang"); err != nil {
			return nil, err
		}
	}
	if errs := ms.Process(); len(errs) > 0 {
		return nil, fmt.Errorf("%v", errs)
	}
	return ms, nil
}

// errSet: a processed set whose Process reported errors; its trees (with several errors recorded on single leaves)
// are read concurrently like any other
const errText = `module ee { namespace "urn:ee"; prefix ee;
  leaf bad { type string { length "5..1"; } config maybe; mandatory perhaps; }
  leaf bad2 { type int8 { range "1..500"; } config maybe; mandatory perhaps; default 3; }
  container c { leaf bad3 { type string { length "9..1"; } config maybe; } }
}`

func errSet() *yang.Modules {
	ms := yang.NewModules()
	ms.Parse(errText, "ee.yang")
	ms.Process()
	return ms
}

// poisonText: a set whose type statement carries an extension with a prefix nobody imports (an error of its own);
// processed in parallel with the ordinary private pipelines it must not change what they resolve
const poisonText = `module pp { namespace "urn:pp"; prefix pp;
  typedef tt { type string { pattern "a.*"; zz:note "x"; } }
  leaf l { type string { pattern "a.*"; zz:note "y"; } }
  leaf m { type tt { pattern "[0-9]+"; zz:other "z"; } }
}`

func poisonRun() {
	ms := yang.NewModules()
	ms.Parse(poisonText, "pp.yang")
	ms.Process()
}

func pointKind(p string) (kind, ev string) {
	switch p {
	case "ns.enter":
		return "ns", "enter"
	case "ns.exit":
		return "ns", "exit"
	case "ec.renter":
		return "ecr", "enter"
	case "ec.rexit":
		return "ecr", "exit"
	case "ec.wenter":
		return "ecw", "enter"
	case "ec.wexit":
		return "ecw", "exit"
	case "td.enter":
		return "td", "enter"
	case "td.exit":
		return "td", "exit"
	case "id.enter":
		return "id", "enter"
	case "id.exit":
		return "id", "exit"
	}
	return p, "?"
}

// sched is the gate: every hook call of a registered goroutine is logged and
// then parks until the driver releases that goroutine.
type sched struct {
	mu      sync.Mutex
	ids     map[int64]int
	sets    map[any]string
	log     []map[string]any
	arrived chan int
	proceed map[int]chan struct{}
	done    chan int
	gated   bool
}

func newSched(n int, gated bool) *sched {
	s := &sched{ids: map[int64]int{}, sets: map[any]string{}, arrived: make(chan int, 1024), proceed: map[int]chan struct{}{}, done: make(chan int, 1024), gated: gated}
	for g := 1; g <= n; g++ {
		s.proceed[g] = make(chan struct{}, 1)
	}
	return s
}

func (s *sched) setName(obj any) string {
	if n, ok := s.sets[obj]; ok {
		return n
	}
	n := fmt.Sprintf("own%d", len(s.sets))
	s.sets[obj] = n
	return n
}

func (s *sched) hook(point string, args ...interface{}) {
	s.mu.Lock()
	g, ok := s.ids[goid()]
	if !ok {
		s.mu.Unlock()
		return
	}
	kind, ev := pointKind(point)
	set := "?"
	if len(args) > 0 {
		set = s.setName(args[0])
	}
	if point != "start" && point != "pause" {
		s.log = append(s.log, map[string]any{"ev": ev, "g": g, "kind": kind, "set": set})
	}
	s.mu.Unlock()
	if s.gated {
		s.arrived <- g
		<-s.proceed[g]
	}
}

func (s *sched) result(g int, op string, value, expected string) {
	s.mu.Lock()
	s.log = append(s.log, map[string]any{"ev": "result", "g": g, "op": op, "value": value, "expected": expected})
	s.mu.Unlock()
}

func (s *sched) spawn(g int, f func()) {
	started := make(chan struct{})
	go func() {
		s.mu.Lock()
		s.ids[goid()] = g
		s.mu.Unlock()
		close(started)
		s.hook("start")
		f()
		s.done <- g
	}()
	<-started
}

// runOp performs the real operation behind one section and records its result.
func runOp(s *sched, g int, ms *yang.Modules, grafted *yang.Entry, sec section) {
	switch sec.Kind {
	case "ns":
		got, err := grafted.InstantiatingModule()
		s.result(g, "InstantiatingModule", fmt.Sprintf("%s %v", got, err), "a3 <nil>")
	case "ecr":
		e := yang.ToEntry(ms.Modules["t2"])
		s.result(g, "ToEntry", fmt.Sprint(e != nil && e.Name == "t2" && len(e.Dir) > 0), "true")
	}
}

// replaySchedule steps the real code through one schedule of Concurrency.tla.
// Before each step every goroutine that the specification says is disabled is
// released as a probe: it must not reach its next hook (it has to be waiting
// for the lock).  A probe that does arrive has logged an Enter the trace
// specification will reject.
func replaySchedule(c *cas) ([]map[string]any, string) {
	ms, err := sharedSet()
	if err != nil {
		return nil, "shared set: " + err.Error()
	}
	grafted := yang.ToEntry(ms.Modules["t2"]).Dir["c"].Dir["added"] // fetched before the hook is installed
	n := len(c.Prog)
	s := newSched(n, true)
	yang.VerifHook = s.hook
	defer func() { yang.VerifHook = nil }()
	for g := 1; g <= n; g++ {
		g, secs := g, c.Prog[g]
		s.spawn(g, func() {
			for i, sec := range secs {
				if i > 0 {
					s.hook("pause") // a point outside every lock, between two operations
				}
				runOp(s, g, ms, grafted, sec)
			}
		})
	}
	parked := map[int]bool{}
	finished := map[int]bool{}
	inflight := map[int]bool{} // released as a probe and presumed blocked on a lock
	wait := func(g int, d time.Duration) string {
		t := time.After(d)
		for {
			if parked[g] {
				return "parked"
			}
			if finished[g] {
				return "done"
			}
			select {
			case a := <-s.arrived:
				parked[a] = true
				delete(inflight, a)
			case f := <-s.done:
				finished[f] = true
				delete(inflight, f)
			case <-t:
				return "blocked"
			}
		}
	}
	release := func(g int) {
		parked[g] = false
		s.proceed[g] <- struct{}{}
	}
	for g := 1; g <= n; g++ { // everybody parks at "start"
		if wait(g, 5*time.Second) != "parked" {
			return s.log, fmt.Sprintf("goroutine %d did not start", g)
		}
	}
	anomaly := ""
	for _, st := range c.Sched {
		for _, h := range st.Blocked {
			if parked[h] && !inflight[h] {
				inflight[h] = true
				release(h)
				if r := wait(h, 40*time.Millisecond); r != "blocked" {
					anomaly = fmt.Sprintf("goroutine %d reached its next lock section (%s) although the specification says it must wait", h, r)
				}
			}
		}
		if anomaly != "" {
			break
		}
		if !inflight[st.G] {
			if !parked[st.G] {
				anomaly = fmt.Sprintf("goroutine %d is not at a hook point when the schedule wants its %s %s", st.G, st.Ev, st.Kind)
				break
			}
			release(st.G)
		}
		if r := wait(st.G, 5*time.Second); r == "blocked" {
			anomaly = fmt.Sprintf("goroutine %d does not reach %s %s although the specification enables it", st.G, st.Ev, st.Kind)
			break
		}
		if st.Ev == "exit" {
			// the goroutine has logged the exit and is parked just before unlocking:
			// let it leave the section and run on to its next pause point (or its end)
			release(st.G)
			if r := wait(st.G, 5*time.Second); r == "blocked" {
				anomaly = fmt.Sprintf("goroutine %d does not come out of its %s section", st.G, st.Kind)
				break
			}
		}
	}
	// let everything run to the end
	s.gated = false
	deadline := time.After(5 * time.Second)
	for len(finished) < n {
		for g := range parked {
			if parked[g] {
				release(g)
			}
		}
		select {
		case a := <-s.arrived:
			parked[a] = true
		case f := <-s.done:
			finished[f] = true
		case <-deadline:
			return s.log, "goroutines did not finish: " + anomaly
		}
	}
	return s.log, anomaly
}

func events(tid int, log []map[string]any, withReset bool) []json.RawMessage {
	var out []json.RawMessage
	if withReset {
		out = append(out, json.RawMessage(fmt.Sprintf(`{"ev":"reset","tid":%d}`, tid)))
	}
	for _, e := range log {
		b, _ := json.Marshal(e)
		out = append(out, b)
	}
	return out
}

func execCase(kind byte, body []byte) *core.Verdict {
	switch kind {
	case 'A':
		var c cas
		if err := json.Unmarshal(body, &c); err != nil {
			return &core.Verdict{Infra: "case: " + err.Error()}
		}
		log, anomaly := replaySchedule(&c)
		v := &core.Verdict{OK: true, Class: "schedule", NT: len(c.Sched) >= 6, Events: events(0, log, false)}
		_ = anomaly // the verdict comes from the trace specification; the anomaly text is kept for the detail
		if strings.HasPrefix(anomaly, "shared set") || strings.Contains(anomaly, "did not start") {
			return &core.Verdict{Infra: anomaly}
		}
		if len(c.Sched) == 8 && len(c.Sched[2].Blocked) > 0 {
			var ss []string
			for _, st := range c.Sched {
				ss = append(ss, fmt.Sprintf("%d:%s(%s)", st.G, st.Ev, st.Kind))
			}
			v.Sample = map[string]any{"schedule": strings.Join(ss, " "), "events_recorded": len(log)}
		}
		return v
	case 'B':
		return stress(body)
	case 'R':
		return raceRun(body)
	case 'C':
		return coldRun(body)
	}
	return &core.Verdict{Infra: "unknown request"}
}

// stress: 4..8 free-running goroutines reading one processed set while others
// run the whole pipeline on sets of their own; the hook only logs.
func stress(body []byte) *core.Verdict {
	var q struct {
		Seed int64
		Tid  int
	}
	json.Unmarshal(body, &q)
	rng := rand.New(rand.NewSource(q.Seed*99991 + int64(q.Tid)))
	ms, err := sharedSet()
	if err != nil {
		return &core.Verdict{Infra: err.Error()}
	}
	grafted := yang.ToEntry(ms.Modules["t2"]).Dir["c"].Dir["added"]
	n := 4 + rng.Intn(5)
	s := newSched(n, false)
	s.sets[ms] = "s"
	yang.VerifHook = s.hook
	var wg sync.WaitGroup
	plans := make([][]int, n)
	for g := range plans {
		for i, k := 0, 3+rng.Intn(6); i < k; i++ {
			plans[g] = append(plans[g], rng.Intn(4))
		}
	}
	for g := 1; g <= n; g++ {
		g := g
		wg.Add(1)
		s.spawn(g, func() {
			defer wg.Done()
			for _, op := range plans[g-1] {
				switch op {
				case 0, 1:
					runOp(s, g, ms, grafted, section{"s", "ns"})
				case 2:
					runOp(s, g, ms, grafted, section{"s", "ecr"})
				default: // the whole pipeline on a set of its own
					own, err := sharedSet()
					s.result(g, "pipeline", fmt.Sprint(err == nil && own != nil), "true")
				}
			}
		})
	}
	wg.Wait()
	yang.VerifHook = nil
	// the typedef dictionary lock object differs from the Modules object; name the sets of
	// the private pipelines by first appearance (done in setName)
	v := &core.Verdict{OK: true, Class: "stress", NT: true, Events: events(q.Tid, s.log, true)}
	if q.Tid == 1 {
		v.Sample = map[string]any{"direction": "B", "goroutines": n, "events": len(s.log)}
	}
	return v
}

// raceRun is executed by the -race build with no hook installed: readers on
// one processed set and pipelines on private sets in parallel; every result
// must equal the sequential one.  A data race ends the process (exit 66).
func raceRun(body []byte) *core.Verdict {
	var q struct {
		Seed int64
		Tid  int
	}
	json.Unmarshal(body, &q)
	rng := rand.New(rand.NewSource(q.Seed*7 + int64(q.Tid)))
	ms, err := sharedSet()
	if err != nil {
		return &core.Verdict{Infra: err.Error()}
	}
	seq := session.Dump(ms, nil)
	t2 := yang.ToEntry(ms.Modules["t2"])
	var paths []string
	flat := map[string]*yang.Entry{}
	var walk func(e *yang.Entry, p string)
	walk = func(e *yang.Entry, p string) {
		for k, c := range e.Dir {
			flat[p+"/t2:"+k] = c
			paths = append(paths, p+"/t2:"+k)
			walk(c, p+"/t2:"+k)
		}
	}
	walk(t2, "")
	sort.Strings(paths)
	n := 6 + rng.Intn(6)
	var wg sync.WaitGroup
	var mu sync.Mutex
	bad := ""
	report := func(s string) { mu.Lock(); bad = s; mu.Unlock() }
	es := errSet()
	var errLeaves []*yang.Entry
	if m := es.Modules["ee"]; m != nil {
		ee := yang.ToEntry(m)
		errLeaves = append(errLeaves, ee, ee.Dir["bad"], ee.Dir["bad2"], ee.Dir["c"])
		if c := ee.Dir["c"]; c != nil {
			errLeaves = append(errLeaves, c.Dir["bad3"])
		}
	}
	seqErrs := []string{}
	for _, l := range errLeaves {
		if l != nil {
			seqErrs = append(seqErrs, fmt.Sprint(l.GetErrors()))
		}
	}
	// a processed set in which a read-only query FAILS (two modules claim one namespace, so the instantiating module of
	// their nodes cannot be named): the failure is an answer, and asking leaves the set as it was
	nsSet := yang.NewModules()
	nsSet.Parse(session.Texts["tgt"], "tgt.yang")
	nsSet.Parse(session.Texts["tgt2"], "tgt2.yang")
	nsSet.Process()
	var nsNodes []*yang.Entry
	for _, mn := range []string{"tgt", "tgt2"} {
		if m := nsSet.Modules[mn]; m != nil {
			e := yang.ToEntry(m)
			nsNodes = append(nsNodes, e)
			for _, c := range e.Dir {
				nsNodes = append(nsNodes, c)
				for _, cc := range c.Dir {
					nsNodes = append(nsNodes, cc)
				}
			}
		}
	}
	nsErrsBefore := []string{}
	for _, e := range nsNodes {
		nsErrsBefore = append(nsErrsBefore, fmt.Sprint(e.GetErrors()))
	}
	nsQuery := func() {
		for i, e := range nsNodes {
			if got := fmt.Sprint(e.GetErrors()); got != nsErrsBefore[i] {
				report(fmt.Sprintf("GetErrors of %s changed under read-only queries: %s (before: %s)", e.Path(), got, nsErrsBefore[i]))
			}
			if i > 1 { // (the module entries themselves have no parent to ask)
				if _, err := e.InstantiatingModule(); err == nil {
					report("InstantiatingModule of " + e.Path() + " succeeds although two modules claim its namespace")
				}
			}
			e.Namespace()
			e.ReadOnly()
		}
	}
	subTrees := func() {
		// the entry trees of the submodules themselves are part of the processed set
		for _, sn := range []string{"s4", "s6a", "s6b"} {
			se := yang.ToEntry(ms.SubModules[sn])
			for _, c := range se.Dir {
				if ns := c.Namespace(); ns == nil || (ns.Name != "urn:m4" && ns.Name != "urn:m6") {
					report(fmt.Sprintf("Namespace of %s/%s in the submodule's own tree: %v", sn, c.Name, ns))
				}
				if m, err := c.InstantiatingModule(); err != nil || (m != "m4" && m != "m6") {
					report(fmt.Sprintf("InstantiatingModule of %s/%s in the submodule's own tree: %s %v", sn, c.Name, m, err))
				}
				for _, cc := range c.Dir {
					cc.Namespace()
					cc.ReadOnly()
				}
			}
		}
	}
	// a submodule that no module includes is converted by Process all the same, but nothing links its imports: the
	// first lookups under its import prefix, from its own tree, are made by several readers at once
	var strayRoot, strayWant *yang.Entry
	strayPath := ""
	stray := yang.NewModules()
	stray.Parse(session.Texts["i1"], "i1.yang")
	stray.Parse(`module sm { namespace "urn:sm"; prefix sm; container top { leaf a { type string; } } }`, "sm.yang")
	stray.Parse(`submodule stray { belongs-to sm { prefix sm; } import i1 { prefix far; }
  container sc { leaf ref { type leafref { path "/far:elsewhere"; } } } }`, "stray.yang")
	if errs := stray.Process(); len(errs) == 0 && stray.SubModules["stray"] != nil && stray.Modules["i1"] != nil {
		i1e := yang.ToEntry(stray.Modules["i1"])
		var ks []string
		for k := range i1e.Dir {
			ks = append(ks, k)
		}
		sort.Strings(ks)
		if len(ks) > 0 {
			strayRoot, strayWant, strayPath = yang.ToEntry(stray.SubModules["stray"]), i1e.Dir[ks[0]], "/far:"+ks[0]
		}
	}
	start := make(chan struct{})
	for g := 0; g < n; g++ {
		wg.Add(1)
		mode := rng.Intn(3)
		if g < 4 {
			mode = 0 // at least four readers, released together: their first queries meet cold caches at the same time
		}
		r := rand.New(rand.NewSource(rng.Int63()))
		go func() {
			defer wg.Done()
			<-start
			for i := 0; i < 30; i++ {
				switch mode {
				case 0: // reader: every read-only query of the statement
					if i == 0 {
						if strayRoot != nil {
							if got := strayRoot.Find(strayPath); got != strayWant {
								report("Find(" + strayPath + ") from the tree of a submodule nobody includes returned another node under concurrency")
							}
						}
						subTrees()
					}
					if i < 3 {
						nsQuery()
					}
					k := 0
					for _, l := range errLeaves { // error accessors on entries that carry several errors
						if l != nil {
							if got := fmt.Sprint(l.GetErrors()); got != seqErrs[k] {
								report("GetErrors of " + l.Name + " differs under concurrency: " + got)
							}
							k++
						}
					}
					p := paths[r.Intn(len(paths))]
					if got := t2.Find(p); got != flat[p] {
						report("Find(" + p + ") returned another node under concurrency")
					}
					e := flat[p]
					if m, err := e.InstantiatingModule(); err != nil || (m != "t2" && m != "a3") {
						report(fmt.Sprintf("InstantiatingModule(%s) = %s, %v", p, m, err))
					}
					e.Namespace()
					e.ReadOnly()
					e.DefaultValues()
					e.GetErrors()
					if yang.ToEntry(ms.Modules["t2"]) != t2 {
						report("ToEntry returned a different cached entry")
					}
					if m, err := ms.FindModuleByNamespace("urn:i1"); err != nil || m.Name != "i1" {
						report("FindModuleByNamespace(urn:i1) failed")
					}
					var sb strings.Builder
					e.Print(&sb)
					subTrees()
				case 1: // a pipeline on a private set
					if i%3 == 1 {
						poisonRun() // another private set, with errors of its own
					}
					own, err := sharedSet()
					if err != nil {
						report("private pipeline failed: " + err.Error())
					} else if d := session.Dump(own, nil); d != seq {
						report("a private pipeline gives a different result under concurrency")
					}
				default:
					if d := session.Dump(ms, nil); d != seq {
						report("the shared set reads differently under concurrency")
					}
				}
			}
		}()
	}
	close(start)
	wg.Wait()
	v := &core.Verdict{OK: bad == "", Class: "race-stress", NT: true, N: int64(n * 30)}
	if bad != "" {
		v.Sig, v.Detail = "result-differs-from-sequential", bad
	}
	return v
}

// coldRun is the first (and only) thing its process executes, under the race detector: independent pipelines on
// private module sets released together, so that whatever the library sets up on first use (tables filled lazily,
// caches) is set up by several goroutines at once.  Each set holds other statement kinds; afterwards every set is
// built once more, sequentially, and must read the same.
func coldRun(body []byte) *core.Verdict {
	var q struct {
		Seed int64
		Tid  int
	}
	json.Unmarshal(body, &q)
	rng := rand.New(rand.NewSource(q.Seed*13 + int64(q.Tid)))
	groups := [][]string{
		{"t2"},               // typedef, grouping, uses, choice, rpc / input, leaf
		{"i1", "t2", "a3"},   // identities, augment, deviation
		{"m4", "s4"},         // include, submodule
		{"tgt", "dvok"},      // leaf-list, rpc output, augment with a choice, deviations
		{"idb", "idm"},       // identities with several bases, identityref typedef
		{"e5"},               // errors found while resolving
		{"bb-r1", "ib"},      // imported grouping and typedef, union
		{"m6", "s6a", "s6b"}, // nested includes
		{"cold-kinds"},       // notification, anyxml, anydata, action, list, case, must / when
		{"oc-ext", "pp1"},    // a malformed posix-pattern (an error found while the type is resolved) ...
		{"oc-ext", "pp2"},    // ... and the same one in another set, at another place
	}
	texts := func(id string) string {
		if id == "cold-kinds" {
			return `module ck { yang-version 1.1; namespace "urn:ck"; prefix ck;
  notification n { leaf nl { type string; } }
  anyxml ax; anydata ad;
  container c { must "a"; when "b"; action act { input { leaf ai { type string; } } output { leaf ao { type string; } } }
    list li { key k; leaf k { type string; } unique k; leaf-list ll { type string; ordered-by user; } }
    choice ch { case ca { leaf cl { type empty; } } } }
  feature f; extension e { argument a; } ck:e "x";
}`
		}
		switch id {
		case "oc-ext":
			return `module openconfig-extensions { namespace "urn:oc-ext"; prefix oc-ext; extension posix-pattern { argument pattern; } }`
		case "pp1":
			return `module pp1 { namespace "urn:pp1"; prefix pp1; import openconfig-extensions { prefix o; }
  leaf l { type string { o:posix-pattern "a(b"; } } }`
		case "pp2":
			return `module pp2 { namespace "urn:pp2"; prefix pp2; import openconfig-extensions { prefix o; }


  container c { leaf deeper { type string { o:posix-pattern "a(b"; } } } }`
		}
		return session.Texts[id]
	}
	// every position in what a pipeline reports names a file of its own set
	reFile := regexp.MustCompile(`([A-Za-z0-9_.-]+\.yang):\d+:\d+`)
	foreign := func(g []string, dump string) string {
		own := map[string]bool{"cc.yang": true}
		for _, id := range g {
			own[id+".yang"] = true
		}
		first := strings.SplitN(dump, "\n", 2)[0]
		for _, m := range reFile.FindAllStringSubmatch(first, -1) {
			if !own[m[1]] {
				return m[0]
			}
		}
		return ""
	}
	build := func(g []string) string {
		ms := yang.NewModules()
		// every set also loads a text with strings written in several pieces joined by "+" (a pattern, so that the
		// joined text shows in what is compared), different in every set
		cc := fmt.Sprintf("module cc { namespace \"urn:cc\"; prefix cc; description \"d\" + \"e\" + \"%s\";\n  leaf l { type string { pattern \"x\" + \"%s\" + \"z.*\"; length \"1\" + \"..\" + \"9\"; } } }", g[0], g[0])
		if err := ms.Parse(cc, "cc.yang"); err != nil {
			return "load of cc failed: " + err.Error()
		}
		for _, id := range g {
			if err := ms.Parse(texts(id), id+".yang"); err != nil {
				return "load of " + id + " failed: " + err.Error()
			}
		}
		return session.Dump(ms, ms.Process())
	}
	n := 4 + rng.Intn(5)
	pick := make([][]string, n)
	for g := range pick {
		pick[g] = groups[rng.Intn(len(groups))]
	}
	pick[0] = groups[len(groups)-3] // the rare statement kinds
	pick[1], pick[2] = groups[len(groups)-2], groups[len(groups)-1]
	got := make([]string, n)
	start := make(chan struct{})
	var wg sync.WaitGroup
	for g := 0; g < n; g++ {
		wg.Add(1)
		go func(g int) {
			defer wg.Done()
			<-start
			got[g] = build(pick[g])
		}(g)
	}
	close(start)
	wg.Wait()
	v := &core.Verdict{OK: true, Class: "cold-start", NT: true, N: int64(2 * n)}
	for g := 0; g < n; g++ {
		if f := foreign(pick[g], got[g]); f != "" {
			v.OK, v.Sig = false, "result-names-another-sets-source"
			v.Detail = fmt.Sprintf("the pipeline over %v, run next to %d others, reports an error at %s, which is not a file of its set:\n%s", pick[g], n-1, f, strings.SplitN(got[g], "\n", 2)[0])
			break
		}
		if want := build(pick[g]); got[g] != want {
			v.OK, v.Sig = false, "result-differs-from-sequential"
			v.Detail = fmt.Sprintf("the pipeline over %v, run next to %d others as the first thing in the process, reads differently from the same pipeline run alone afterwards", pick[g], n-1)
			break
		}
	}
	return v
}

// buildRace builds the harness with the race detector.
func buildRace(r *core.Run) string {
	out := r.Out + "/verif-race"
	cmd := exec.Command("go", "build", "-race", "-tags", "verif", "-o", out, "./cmd/verif")
	cmd.Dir = core.HarnessDir
	cmd.Env = append(os.Environ(), "GOFLAGS=-mod=mod", "GOPROXY=off", "GOSUMDB=off", "GOTOOLCHAIN=local", "CGO_ENABLED=1")
	if b, err := cmd.CombinedOutput(); err != nil {
		r.Infra("race build failed: " + err.Error() + " " + string(b))
		return ""
	}
	return out
}

func check(r *core.Run) {
	r.Level = "model_checking"
	r.Rule = "A: every schedule (maximal interleaving of the Enter / Exit steps) of 2 goroutines (thorough: also 3) each running one or two reader operations on a shared processed set (first-time and cached namespace lookup via InstantiatingModule, cached ToEntry), as enumerated by TLC from Concurrency.tla with Mutex / NoDeadlock checked; each replayed in the real code with the hook as a gate, probing before every step each goroutine the specification says must wait; the recorded lock-section events and operation results are judged by ConcurrencyTrace.tla. B1: seeded free-running stress (4-8 goroutines, readers on the shared set and whole pipelines on private sets), every recorded event validated the same way. B2: the same mix with no hook installed under the race detector (a report is a violation), every result compared with the sequential run. Non-trivial = schedules with at least 6 steps."
	r.Assumptions = []string{"the model sees the instrumented lock sections only; memory accesses between them are covered by the race detector on the stress runs", "a slow goroutine can only make a gated schedule less adversarial, never produce an illegal trace", "concurrent mutation of one set and Find paths that create rpc input/output are outside the claim"}
	col := core.NewCollector()
	cfgs := []string{"MCConc_2.cfg"}
	nB, nR, nC := 40, 24, 8
	if r.Tier == "thorough" {
		cfgs = append(cfgs, "MCConc_3.cfg")
		nB, nR, nC = 400, 200, 60
	}
	core.PoolSize = 6 // gated replays are timing sensitive: leave cores free
	for _, cfg := range cfgs {
		r.DirectionAC("conc", core.TLCOpts{Module: "MCConc", Cfg: cfg, Workers: 8}, nil, col)
	}
	core.PoolSize = 0
	core.SubmitCollect(r, "conc", 'B', nB, col)
	r.ValidateTrace("conc", col, core.TLCOpts{Module: "ConcurrencyTrace", Cfg: "ConcurrencyTrace.cfg"})
	if bin := buildRace(r); bin != "" {
		core.PoolBinary = bin
		core.PoolEnv = []string{"GORACE=halt_on_error=1 exitcode=66"}
		core.SubmitCollect(r, "conc", 'R', nR, nil)
		// cold starts: independent pipelines as the first thing a process does, one process each
		core.SubmitFresh(r, "conc", 'C', nC, 4)
		core.PoolBinary, core.PoolEnv = "", nil
	}
}
