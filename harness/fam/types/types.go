// Package types binds Types.tla (C09) to type resolution behind Process.
package types

import (
	"encoding/json"
	"fmt"
	"sort"
	"strings"

	"github.com/openconfig/goyang/pkg/yang"
	"verifharness/core"
	"verifharness/fam/schema"
)

func init() {
	core.Register(&core.Family{Name: "types", Exec: exec, Classify: classify})
	core.Checks["C09"] = check
}

type qn struct {
	P string `json:"p"`
	N string `json:"n"`
}

func (q qn) String() string {
	if q.P == "" {
		return q.N
	}
	return q.P + ":" + q.N
}

type td struct {
	Slot  string `json:"slot"`
	Name  string `json:"name"`
	Base  qn     `json:"base"`
	Units string `json:"units"`
	Dflt  string `json:"dflt"`
	Pat   string `json:"pat"`
}
type prog struct {
	Tds  []td   `json:"tds"`
	Site string `json:"site"`
	Ref  qn     `json:"ref"`
	Leaf struct {
		Pat string `json:"pat"`
	} `json:"leaf"`
	Members []member `json:"members"`
	Via     string   `json:"via"`
}
type member struct {
	Kind string `json:"kind"`
	Attr string `json:"attr"`
}

func (m member) text() string {
	switch m.Kind {
	case "leafref":
		return fmt.Sprintf("type leafref { path \"/a:tgt_%s\"; }", m.Attr)
	case "bits":
		return fmt.Sprintf("type bits { bit %s; }", m.Attr)
	case "enumeration":
		return fmt.Sprintf("type enumeration { enum %s; }", m.Attr)
	case "int8":
		return fmt.Sprintf("type int8 { range %q; }", m.Attr)
	case "string":
		if m.Attr == "" {
			return "type string;"
		}
		return fmt.Sprintf("type string { pattern %q; }", m.Attr)
	}
	return "type " + m.Kind + ";"
}

// describe renders a resolved member the way member.text distinguishes them
func describe(y *yang.YangType) string {
	k := yang.TypeKindToName[y.Kind]
	switch k {
	case "leafref":
		return k + ":" + strings.TrimPrefix(y.Path, "/a:tgt_")
	case "bits":
		if y.Bit != nil {
			return k + ":" + strings.Join(y.Bit.Names(), ",")
		}
	case "enumeration":
		if y.Enum != nil {
			return k + ":" + strings.Join(y.Enum.Names(), ",")
		}
	case "int8":
		return k + ":" + y.Range.String()
	case "string":
		return k + ":" + strings.Join(y.Pattern, ",")
	}
	return k + ":"
}

type rtype struct {
	Kind    string   `json:"kind"`
	Name    string   `json:"name"`
	Units   string   `json:"units"`
	Dflt    string   `json:"dflt"`
	Pats    []string `json:"pats"`
	SibPats []string `json:"sibpats"`
	Bound   string   `json:"bound"`
	Members []member `json:"members"`
}
type cas struct {
	Prog prog            `json:"prog"`
	Err  bool            `json:"err"`
	Type json.RawMessage `json:"type"`
}

func (p *prog) tdsAt(slot string) string {
	var out []string
	for _, t := range p.Tds {
		if t.Slot != slot {
			continue
		}
		ty := "type " + t.Base.String() + ";"
		if t.Pat != "" {
			ty = fmt.Sprintf("type %s { pattern %q; }", t.Base, t.Pat)
		}
		s := fmt.Sprintf("typedef %s { %s", t.Name, ty)
		if t.Units != "" {
			s += fmt.Sprintf(" units %q;", t.Units)
		}
		if t.Dflt != "" {
			s += fmt.Sprintf(" default %q;", t.Dflt)
		}
		out = append(out, s+" }")
	}
	sort.Strings(out)
	return strings.Join(out, " ")
}

func (p *prog) leafAt(site string) string {
	if p.Site != site {
		return ""
	}
	if len(p.Members) > 0 {
		var ms []string
		for _, m := range p.Members {
			ms = append(ms, m.text())
		}
		u := "type union { " + strings.Join(ms, " ") + " }"
		switch p.Via {
		case "typedef":
			return fmt.Sprintf("typedef tu { %s } leaf %s { type tu; }", u, site)
		case "typedef2":
			return fmt.Sprintf("typedef tu { %s } typedef tu2 { type tu; units \"uu\"; } leaf %s { type tu2; }", u, site)
		}
		return fmt.Sprintf("leaf %s { %s }", site, u)
	}
	if p.Leaf.Pat != "" {
		// a sibling of the same type with a pattern of its own: restrictions added at one
		// use of a typedef must not show at another
		return fmt.Sprintf("leaf %s { type %s { pattern %q; } } leaf sib_%s { type %s { pattern \"sibling-pat\"; } }", site, p.Ref, p.Leaf.Pat, site, p.Ref)
	}
	return fmt.Sprintf("leaf %s { type %s; }", site, p.Ref)
}

// texts renders the fixed skeleton of scopes with the program's typedefs and leaf.
// samePrefix: module b (and its submodule) declare for themselves the prefix module a declares for itself ("a");
// what a module calls itself is its own business, importers still say b
var samePrefix bool

func (p *prog) texts() map[string]string {
	// module y declares the prefix "b" for itself and is imported (as yy) before b: a reference b:t must not end up there
	a := "module a { namespace \"urn:a\"; prefix a; import y { prefix yy; } import b { prefix b; } include as;\n leaf tgt_p1 { type string; } leaf tgt_p2 { type string; }\n " + p.tdsAt("A0") +
		"\n container c { " + p.tdsAt("C1") + " " + p.leafAt("lc") + " container d { " + p.tdsAt("D2") + " " + p.leafAt("ld") + " } }" +
		"\n list li { key k; leaf k { type string; } " + p.tdsAt("L1") + " " + p.leafAt("ll") + " }" +
		"\n grouping g { " + p.tdsAt("G1") + " " + p.leafAt("lg") + " } container u { uses g; }" +
		"\n rpc r { " + p.tdsAt("R1") + " input { " + p.tdsAt("I2") + " " + p.leafAt("li") + " } output { " + p.tdsAt("O2") + " " + p.leafAt("lo") + " } }" +
		"\n notification n { " + p.tdsAt("N1") + " " + p.leafAt("ln") + " }\n " + p.leafAt("ltop") +
		"\n grouping unused { action act { input { " + p.leafAt("la") + " } } }\n}\n"
	as := "submodule as { belongs-to a { prefix a; } import y { prefix yy; } import b { prefix b; }\n " + p.tdsAt("S0") + " " + p.leafAt("ls") + "\n}\n"
	b := "module b { namespace \"urn:b\"; prefix b; include bs;\n " + p.tdsAt("B0") + "\n}\n"
	bs := "submodule bs { belongs-to b { prefix b; }\n " + p.tdsAt("BS0") + "\n}\n"
	y := "module y { namespace \"urn:y\"; prefix b;\n typedef t { type string; units \"DECOY-Y\"; } typedef u { type string; units \"DECOY-Y\"; }\n}\n"
	if samePrefix {
		b = strings.ReplaceAll(strings.Replace(b, "prefix b;", "prefix a;", 1), " b:", " a:")
		bs = strings.ReplaceAll(strings.Replace(bs, "prefix b;", "prefix a;", 1), " b:", " a:")
	}
	return map[string]string{"a": a, "as": as, "b": b, "bs": bs, "y": y}
}

func find(e *yang.Entry, name string) *yang.Entry {
	if e == nil {
		return nil
	}
	if e.Name == name && e.Kind == yang.LeafEntry {
		return e
	}
	for _, c := range e.Dir {
		if r := find(c, name); r != nil {
			return r
		}
	}
	if e.RPC != nil {
		if r := find(e.RPC.Input, name); r != nil {
			return r
		}
		if r := find(e.RPC.Output, name); r != nil {
			return r
		}
	}
	return nil
}

func classOf(c *cas) string {
	p := &c.Prog
	inSub, foreignSub, ownerRef := false, false, false
	for _, t := range p.Tds {
		if t.Slot == "BS0" {
			foreignSub = true
		}
		if t.Slot == "S0" || t.Slot == "BS0" {
			inSub = true
		}
	}
	if p.Site == "ls" {
		ownerRef = true
	}
	switch {
	case ownerRef:
		return "reference-from-a-submodule"
	case foreignSub:
		return "typedef-in-imported-modules-submodule"
	case inSub:
		return "typedef-in-a-submodule"
	case c.Err:
		return "unresolvable"
	}
	return "plain"
}

func classify(kind byte, body []byte) string {
	var c cas
	if kind != 'A' || json.Unmarshal(body, &c) != nil {
		return "generated"
	}
	return classOf(&c)
}

func exec(kind byte, body []byte) *core.Verdict {
	samePrefix = false
	v := exec1(kind, body)
	if kind == 'B' || !v.OK || v.Infra != "" {
		return v
	}
	samePrefix = true
	v2 := exec1(kind, body)
	samePrefix = false
	if !v2.OK || v2.Infra != "" {
		v2.Detail = "(module b declaring the same own prefix as module a) " + v2.Detail
		return v2
	}
	v.N += v2.N
	return v
}

func exec1(kind byte, body []byte) *core.Verdict {
	if kind == 'B' {
		return &core.Verdict{OK: true, Out: true}
	}
	var c cas
	if err := json.Unmarshal(body, &c); err != nil {
		return &core.Verdict{Infra: "case: " + err.Error()}
	}
	v := &core.Verdict{OK: true, Class: classOf(&c), NT: len(c.Prog.Tds) >= 2}
	t := c.Prog.texts()
	text := t["a"] + t["as"] + t["b"] + t["bs"] + t["y"]
	fail := func(sig, f string, a ...any) *core.Verdict {
		v.OK, v.Sig, v.Detail = false, sig, fmt.Sprintf(f, a...)+"\n"+text
		return v
	}
	ms := yang.NewModules()
	for _, n := range []string{"a", "as", "b", "bs", "y"} {
		if err := ms.Parse(t[n], n+".yang"); err != nil {
			return &core.Verdict{Infra: "rendered skeleton does not parse: " + err.Error() + "\n" + t[n]}
		}
	}
	errs := ms.Process()
	if c.Err {
		if len(errs) == 0 {
			return fail("unresolvable-type-accepted", "the specification reports an unknown, unresolvable or cyclic type, Process returned no error")
		}
		return v
	}
	if len(errs) > 0 {
		return fail("resolvable-type-rejected", "the specification resolves every type, Process returned %v", errs)
	}
	var want rtype
	json.Unmarshal(c.Type, &want)
	l := find(yang.ToEntry(ms.Modules["a"]), c.Prog.Site)
	if c.Prog.Site == "la" { // not in the module's tree: read from the grouping's own entry
		for _, g := range ms.Modules["a"].Grouping {
			if g.Name == "unused" {
				l = find(yang.ToEntry(g), "la")
			}
		}
	}
	if l == nil || l.Type == nil {
		return fail("leaf-without-type", "leaf %s has no resolved type", c.Prog.Site)
	}
	y := l.Type
	if got := yang.TypeKindToName[y.Kind]; got != want.Kind {
		return fail("kind-differs", "specification %s, library %s", want.Kind, got)
	}
	if y.Name != want.Name && len(c.Prog.Members) == 0 {
		return fail("name-differs", "specification %s, library %s", want.Name, y.Name)
	}
	if y.Units != want.Units && len(c.Prog.Members) == 0 {
		return fail("units-differ", "specification %q (the typedef bound is the one at %s), library %q", want.Units, want.Bound, y.Units)
	}
	if y.Default != want.Dflt || y.HasDefault != (want.Dflt != "") {
		return fail("default-differs", "specification %q, library %q (HasDefault=%v)", want.Dflt, y.Default, y.HasDefault)
	}
	if dv := l.DefaultValues(); (want.Dflt == "") != (len(dv) == 0) || (len(dv) == 1 && dv[0] != want.Dflt) {
		return fail("default-values-differ", "specification %q, DefaultValues() %v", want.Dflt, dv)
	}
	if want.Kind == "union" {
		var g, w []string
		for _, m := range y.Type {
			g = append(g, describe(m))
		}
		for _, m := range want.Members {
			w = append(w, m.Kind+":"+m.Attr)
		}
		if strings.Join(g, " | ") != strings.Join(w, " | ") {
			return fail("union-members-differ", "specification [%s], library [%s]", strings.Join(w, " | "), strings.Join(g, " | "))
		}
	}
	if want.Kind == "string" {
		if g, w := strings.Join(y.Pattern, "|"), strings.Join(want.Pats, "|"); g != w {
			return fail("patterns-differ", "specification %q, library %q", w, g)
		}
	}
	if want.Kind == "string" && c.Prog.Leaf.Pat != "" {
		if sib := find(yang.ToEntry(ms.Modules["a"]), "sib_"+c.Prog.Site); sib != nil && sib.Type != nil {
			w := want.SibPats
			if g := strings.Join(sib.Type.Pattern, "|"); g != strings.Join(w, "|") {
				return fail("patterns-differ-at-sibling", "sibling leaf of the same type: specification %q, library %q", strings.Join(w, "|"), g)
			}
		}
	}
	if len(c.Prog.Tds) == 3 && c.Prog.Tds[0].Slot != c.Prog.Tds[1].Slot && want.Units != "" && len(want.Pats) == 3 {
		v.Sample = map[string]any{"yang": text, "expected_type": want}
	}
	return v
}

func check(r *core.Run) {
	r.Rule = "A: a fixed skeleton of 12 typedef scopes (module, container, nested container, list, grouping used elsewhere, rpc, input, output, notification, submodule, imported module, its submodule); binding space: every set of up to 3 typedefs named t (each with its own units) x 9 reference sites x 3 spellings (t, own prefix, foreign prefix); chain space: leaf -> t -> u -> v -> string with t and u placed at several scopes and modules, bases spelled unprefixed / own-prefixed / foreign, self reference and two-cycle, unknown base, int32 base, units / default / pattern at every level (shared pattern = duplicate); the machine of Types.tla binds and follows the chain one typedef per step, TLC checks Lexical / ForeignExact / NoRepeat; every case is resolved by Process and Entry.Type (kind, name, units, default, DefaultValues(), patterns) compared. Non-trivial = at least two typedefs."
	r.Exhaustive = true
	r.Assumptions = []string{"re-listing a subset of enum / bit members is outside the claim", "a submodule sees its owner's top level and the owner's other submodules (RFC 7950 5.1)"}
	cfgs := []string{"bind", "chain_quick", "union"}
	if r.Tier == "thorough" {
		cfgs = []string{"bind", "chain", "union"}
	}
	for _, c := range cfgs {
		r.DirectionA("types", core.TLCOpts{Module: "MCT_" + c, Cfg: "MCT_" + c + ".cfg", Workers: 12, Timeout: 0}, nil)
	}
	// what a name denotes may change between two runs over one set (a newer revision of the imported module arrives)
	schema.SessionHistories(r, "C09", "bb-r2")
}
