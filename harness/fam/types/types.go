// Package types binds Types.tla (C09) to type resolution behind Process.
package types

import (
	"encoding/json"
	"fmt"
	"math/rand"
	"sort"
	"strings"

	"github.com/openconfig/goyang/pkg/yang"
	"verifharness/core"
	"verifharness/fam/schema"
)

func init() {
	core.Register(&core.Family{Name: "types", Exec: exec, Classify: classify})
	core.Checks["C09"] = check
	schema.C05Types = Repeatable
	schema.TypeScopes = func(r *core.Run) {
		n := 200
		if r.Tier == "thorough" {
			n = 2000
		}
		r.DirectionB("types", n, core.TLCOpts{Module: "TypesTrace", Cfg: "TypesTrace.cfg", HeapGB: 8})
	}
}

type qn struct {
	P string `json:"p"`
	N string `json:"n"`
}

func (q qn) String() string {
	if q.P == "" {
		return q.N
	}
	return q.P + ":" + q.N
}

type td struct {
	Slot  string `json:"slot"`
	Name  string `json:"name"`
	Base  qn     `json:"base"`
	Units string `json:"units"`
	Dflt  string `json:"dflt"`
	Pat   string `json:"pat"`
}
type prog struct {
	Tds  []td   `json:"tds"`
	Site string `json:"site"`
	Ref  qn     `json:"ref"`
	Leaf struct {
		Pat string `json:"pat"`
	} `json:"leaf"`
	Members []member `json:"members"`
	Via     string   `json:"via"`
}
type member struct {
	Kind string `json:"kind"`
	Attr string `json:"attr"`
}

func (m member) text() string {
	switch m.Kind {
	case "leafref":
		return fmt.Sprintf("type leafref { path \"/a:tgt_%s\"; }", m.Attr)
	case "bits":
		return fmt.Sprintf("type bits { bit %s; }", m.Attr)
	case "enumeration":
		return fmt.Sprintf("type enumeration { enum %s; }", m.Attr)
	case "int8":
		return fmt.Sprintf("type int8 { range %q; }", m.Attr)
	case "string":
		if m.Attr == "" {
			return "type string;"
		}
		return fmt.Sprintf("type string { pattern %q; }", m.Attr)
	}
	return "type " + m.Kind + ";"
}

// describe renders a resolved member the way member.text distinguishes them
func describe(y *yang.YangType) string {
	k := yang.TypeKindToName[y.Kind]
	switch k {
	case "leafref":
		return k + ":" + strings.TrimPrefix(y.Path, "/a:tgt_")
	case "bits":
		if y.Bit != nil {
			return k + ":" + strings.Join(y.Bit.Names(), ",")
		}
	case "enumeration":
		if y.Enum != nil {
			return k + ":" + strings.Join(y.Enum.Names(), ",")
		}
	case "int8":
		return k + ":" + y.Range.String()
	case "string":
		return k + ":" + strings.Join(y.Pattern, ",")
	}
	return k + ":"
}

type rtype struct {
	Kind    string   `json:"kind"`
	Name    string   `json:"name"`
	Units   string   `json:"units"`
	Dflt    string   `json:"dflt"`
	Pats    []string `json:"pats"`
	SibPats []string `json:"sibpats"`
	Bound   string   `json:"bound"`
	Members []member `json:"members"`
}
type cas struct {
	// Prop: "C05" when the case is replayed for reproducibility only (the same errors, the same type, in every run)
	Prop string          `json:"prop"`
	Prog prog            `json:"prog"`
	Err  bool            `json:"err"`
	Type json.RawMessage `json:"type"`
}

func (p *prog) tdsAt(slot string) string {
	var out []string
	for _, t := range p.Tds {
		if t.Slot != slot {
			continue
		}
		ty := "type " + t.Base.String() + ";"
		if t.Pat != "" {
			ty = fmt.Sprintf("type %s { pattern %q; }", t.Base, t.Pat)
		}
		s := fmt.Sprintf("typedef %s { %s", t.Name, ty)
		if t.Units != "" {
			s += fmt.Sprintf(" units %q;", t.Units)
		}
		if t.Dflt != "" {
			s += fmt.Sprintf(" default %q;", t.Dflt)
		}
		out = append(out, s+" }")
	}
	sort.Strings(out)
	return strings.Join(out, " ")
}

func (p *prog) leafAt(site string) string {
	if p.Site != site {
		return ""
	}
	if len(p.Members) > 0 {
		var ms []string
		for _, m := range p.Members {
			ms = append(ms, m.text())
		}
		u := "type union { " + strings.Join(ms, " ") + " }"
		switch p.Via {
		case "typedef":
			return fmt.Sprintf("typedef tu { %s } leaf %s { type tu; }", u, site)
		case "typedef2":
			return fmt.Sprintf("typedef tu { %s } typedef tu2 { type tu; units \"uu\"; } leaf %s { type tu2; }", u, site)
		}
		return fmt.Sprintf("leaf %s { %s }", site, u)
	}
	if p.Leaf.Pat != "" {
		// a sibling of the same type with a pattern of its own: restrictions added at one
		// use of a typedef must not show at another
		return fmt.Sprintf("leaf %s { type %s { pattern %q; } } leaf sib_%s { type %s { pattern \"sibling-pat\"; } }", site, p.Ref, p.Leaf.Pat, site, p.Ref)
	}
	return fmt.Sprintf("leaf %s { type %s; }", site, p.Ref)
}

// texts renders the fixed skeleton of scopes with the program's typedefs and leaf.
// samePrefix: module b (and its submodule) declare for themselves the prefix module a declares for itself ("a");
// what a module calls itself is its own business, importers still say b
var samePrefix bool

func (p *prog) texts() map[string]string {
	// module y declares the prefix "b" for itself and is imported (as yy) before b: a reference b:t must not end up there
	a := "module a { namespace \"urn:a\"; prefix a; import y { prefix yy; } import b { prefix b; } include as;\n leaf tgt_p1 { type string; } leaf tgt_p2 { type string; }\n " + p.tdsAt("A0") +
		"\n container c { " + p.tdsAt("C1") + " " + p.leafAt("lc") + " container d { " + p.tdsAt("D2") + " " + p.leafAt("ld") + " } }" +
		"\n list li { key k; leaf k { type string; } " + p.tdsAt("L1") + " " + p.leafAt("ll") + " }" +
		"\n grouping g { " + p.tdsAt("G1") + " " + p.leafAt("lg") + " } container u { uses g; }" +
		"\n rpc r { " + p.tdsAt("R1") + " input { " + p.tdsAt("I2") + " " + p.leafAt("li") + " } output { " + p.tdsAt("O2") + " " + p.leafAt("lo") + " } }" +
		"\n notification n { " + p.tdsAt("N1") + " " + p.leafAt("ln") + " }\n " + p.leafAt("ltop") +
		"\n grouping unused { action act { input { " + p.leafAt("la") + " } } }\n}\n"
	as := "submodule as { belongs-to a { prefix a; } import y { prefix yy; } import b { prefix b; }\n " + p.tdsAt("S0") + " " + p.leafAt("ls") + "\n}\n"
	b := "module b { namespace \"urn:b\"; prefix b; include bs;\n " + p.tdsAt("B0") + "\n}\n"
	bs := "submodule bs { belongs-to b { prefix b; }\n " + p.tdsAt("BS0") + "\n}\n"
	y := "module y { namespace \"urn:y\"; prefix b;\n typedef t { type string; units \"DECOY-Y\"; } typedef u { type string; units \"DECOY-Y\"; }\n}\n"
	if samePrefix {
		b = strings.ReplaceAll(strings.Replace(b, "prefix b;", "prefix a;", 1), " b:", " a:")
		bs = strings.ReplaceAll(strings.Replace(bs, "prefix b;", "prefix a;", 1), " b:", " a:")
	}
	return map[string]string{"a": a, "as": as, "b": b, "bs": bs, "y": y}
}

func find(e *yang.Entry, name string) *yang.Entry {
	if e == nil {
		return nil
	}
	if e.Name == name && e.Kind == yang.LeafEntry {
		return e
	}
	for _, c := range e.Dir {
		if r := find(c, name); r != nil {
			return r
		}
	}
	if e.RPC != nil {
		if r := find(e.RPC.Input, name); r != nil {
			return r
		}
		if r := find(e.RPC.Output, name); r != nil {
			return r
		}
	}
	return nil
}

func classOf(c *cas) string {
	p := &c.Prog
	inSub, foreignSub, ownerRef := false, false, false
	for _, t := range p.Tds {
		if t.Slot == "BS0" {
			foreignSub = true
		}
		if t.Slot == "S0" || t.Slot == "BS0" {
			inSub = true
		}
	}
	if p.Site == "ls" {
		ownerRef = true
	}
	switch {
	case ownerRef:
		return "reference-from-a-submodule"
	case foreignSub:
		return "typedef-in-imported-modules-submodule"
	case inSub:
		return "typedef-in-a-submodule"
	case c.Err:
		return "unresolvable"
	}
	return "plain"
}

func classify(kind byte, body []byte) string {
	var c cas
	if kind != 'A' || json.Unmarshal(body, &c) != nil {
		return "generated"
	}
	return classOf(&c)
}

func exec(kind byte, body []byte) *core.Verdict {
	samePrefix = false
	v := exec1(kind, body)
	if kind == 'B' || !v.OK || v.Infra != "" {
		return v
	}
	samePrefix = true
	v2 := exec1(kind, body)
	samePrefix = false
	if !v2.OK || v2.Infra != "" {
		v2.Detail = "(module b declaring the same own prefix as module a) " + v2.Detail
		return v2
	}
	v.N += v2.N
	return v
}

func exec1(kind byte, body []byte) *core.Verdict {
	if kind == 'B' {
		return genTypes(body)
	}
	var c cas
	if err := json.Unmarshal(body, &c); err != nil {
		return &core.Verdict{Infra: "case: " + err.Error()}
	}
	v := &core.Verdict{OK: true, Class: classOf(&c), NT: len(c.Prog.Tds) >= 2}
	if c.Prop == "C05" {
		return repeatable(&c, v)
	}
	t := c.Prog.texts()
	text := t["a"] + t["as"] + t["b"] + t["bs"] + t["y"]
	fail := func(sig, f string, a ...any) *core.Verdict {
		v.OK, v.Sig, v.Detail = false, sig, fmt.Sprintf(f, a...)+"\n"+text
		return v
	}
	ms := yang.NewModules()
	for _, n := range []string{"a", "as", "b", "bs", "y"} {
		if err := ms.Parse(t[n], n+".yang"); err != nil {
			return &core.Verdict{Infra: "rendered skeleton does not parse: " + err.Error() + "\n" + t[n]}
		}
	}
	errs := ms.Process()
	if c.Err {
		if len(errs) == 0 {
			return fail("unresolvable-type-accepted", "the specification reports an unknown, unresolvable or cyclic type, Process returned no error")
		}
		return v
	}
	if len(errs) > 0 {
		return fail("resolvable-type-rejected", "the specification resolves every type, Process returned %v", errs)
	}
	var want rtype
	json.Unmarshal(c.Type, &want)
	l := find(yang.ToEntry(ms.Modules["a"]), c.Prog.Site)
	if c.Prog.Site == "la" { // not in the module's tree: read from the grouping's own entry
		for _, g := range ms.Modules["a"].Grouping {
			if g.Name == "unused" {
				l = find(yang.ToEntry(g), "la")
			}
		}
	}
	if l == nil || l.Type == nil {
		return fail("leaf-without-type", "leaf %s has no resolved type", c.Prog.Site)
	}
	y := l.Type
	if got := yang.TypeKindToName[y.Kind]; got != want.Kind {
		return fail("kind-differs", "specification %s, library %s", want.Kind, got)
	}
	if y.Name != want.Name && len(c.Prog.Members) == 0 {
		return fail("name-differs", "specification %s, library %s", want.Name, y.Name)
	}
	if y.Units != want.Units && len(c.Prog.Members) == 0 {
		return fail("units-differ", "specification %q (the typedef bound is the one at %s), library %q", want.Units, want.Bound, y.Units)
	}
	if y.Default != want.Dflt || y.HasDefault != (want.Dflt != "") {
		return fail("default-differs", "specification %q, library %q (HasDefault=%v)", want.Dflt, y.Default, y.HasDefault)
	}
	if dv := l.DefaultValues(); (want.Dflt == "") != (len(dv) == 0) || (len(dv) == 1 && dv[0] != want.Dflt) {
		return fail("default-values-differ", "specification %q, DefaultValues() %v", want.Dflt, dv)
	}
	if want.Kind == "union" {
		var g, w []string
		for _, m := range y.Type {
			g = append(g, describe(m))
		}
		for _, m := range want.Members {
			w = append(w, m.Kind+":"+m.Attr)
		}
		if strings.Join(g, " | ") != strings.Join(w, " | ") {
			return fail("union-members-differ", "specification [%s], library [%s]", strings.Join(w, " | "), strings.Join(g, " | "))
		}
	}
	if want.Kind == "string" {
		if g, w := strings.Join(y.Pattern, "|"), strings.Join(want.Pats, "|"); g != w {
			return fail("patterns-differ", "specification %q, library %q", w, g)
		}
	}
	if want.Kind == "string" && c.Prog.Leaf.Pat != "" {
		if sib := find(yang.ToEntry(ms.Modules["a"]), "sib_"+c.Prog.Site); sib != nil && sib.Type != nil {
			w := want.SibPats
			if g := strings.Join(sib.Type.Pattern, "|"); g != strings.Join(w, "|") {
				return fail("patterns-differ-at-sibling", "sibling leaf of the same type: specification %q, library %q", strings.Join(w, "|"), g)
			}
		}
	}
	if len(c.Prog.Tds) == 3 && c.Prog.Tds[0].Slot != c.Prog.Tds[1].Slot && want.Units != "" && len(want.Pats) == 3 {
		v.Sample = map[string]any{"yang": text, "expected_type": want}
	}
	return v
}

// repeatable: the program is loaded and processed several times on fresh sets, in two load orders: the list of error
// texts and the resolved type of the leaf must come out the same every time (C05)
func repeatable(c *cas, v *core.Verdict) *core.Verdict {
	t := c.Prog.texts()
	first := ""
	for k := 0; k < 8; k++ {
		order := []string{"a", "as", "b", "bs", "y"}
		if k%2 == 1 {
			order = []string{"y", "bs", "b", "as", "a"}
		}
		ms := yang.NewModules()
		for _, n := range order {
			if err := ms.Parse(t[n], n+".yang"); err != nil {
				return &core.Verdict{Infra: "rendered skeleton does not parse: " + err.Error()}
			}
		}
		var sb strings.Builder
		for _, e := range ms.Process() {
			sb.WriteString(e.Error() + "\n")
		}
		if l := find(yang.ToEntry(ms.Modules["a"]), c.Prog.Site); l != nil && l.Type != nil {
			fmt.Fprintf(&sb, "type %s kind %s units %q default %q patterns %v\n", l.Type.Name, yang.TypeKindToName[l.Type.Kind], l.Type.Units, l.Type.Default, l.Type.Pattern)
		}
		v.N++
		if k == 0 {
			first = sb.String()
		} else if sb.String() != first {
			v.OK, v.Sig = false, "result-varies"
			v.Detail = fmt.Sprintf("run %d gives\n%s\nthe first run gave\n%s\n%s", k+1, sb.String(), first, t["a"]+t["as"]+t["b"]+t["bs"])
			return v
		}
	}
	return v
}

// Repeatable is the part of C05 that runs over the typedef chain space (cycles, unknown bases: error lists).
func Repeatable(r *core.Run) {
	core.CaseSuffix = `,"prop":"C05"}`
	defer func() { core.CaseSuffix = "" }()
	r.DirectionA("types", core.TLCOpts{Module: "MCT_chain_quick", Cfg: "MCT_chain_quick.cfg", Workers: 12, Timeout: 0}, nil)
}

func check(r *core.Run) {
	r.Rule = "A: a fixed skeleton of 12 typedef scopes (module, container, nested container, list, grouping used elsewhere, rpc, input, output, notification, submodule, imported module, its submodule); binding space: every set of up to 3 typedefs named t (each with its own units) x 9 reference sites x 3 spellings (t, own prefix, foreign prefix); chain space: leaf -> t -> u -> v -> string with t and u placed at several scopes and modules, bases spelled unprefixed / own-prefixed / foreign, self reference and two-cycle, unknown base, int32 base, units / default / pattern at every level (shared pattern = duplicate); the machine of Types.tla binds and follows the chain one typedef per step, TLC checks Lexical / ForeignExact / NoRepeat; every case is resolved by Process and Entry.Type (kind, name, units, default, DefaultValues(), patterns) compared. Non-trivial = at least two typedefs. B: random scope structures (2-3 modules with submodules, scopes nested up to 6, shadowing typedefs, chains across imports, unions of references, enumeration / bits / decimal64 / leafref bases, empty-string units) recorded from the real library and judged by TypesTrace.tla over TypesG.tla (error presence; kind, units, default, DefaultValues(), patterns, fraction-digits, enum / bit names, path, union members per leaf); the multi-revision registry cases with two revisions of one importer pinned to two revisions of the imported module."
	r.Exhaustive = true
	r.Assumptions = []string{"re-listing a subset of enum / bit members is outside the claim", "a submodule sees its owner's top level and the owner's other submodules (RFC 7950 5.1)"}
	cfgs := []string{"bind", "chain_quick", "union"}
	if r.Tier == "thorough" {
		cfgs = []string{"bind", "chain", "union"}
	}
	for _, c := range cfgs {
		r.DirectionA("types", core.TLCOpts{Module: "MCT_" + c, Cfg: "MCT_" + c + ".cfg", Workers: 12, Timeout: 0}, nil)
	}
	// what a name denotes may change between two runs over one set (a newer revision of the imported module arrives)
	schema.SessionHistories(r, "C09", "bb-r2")
	// direction B: random scope structures, judged by TypesTrace / TypesG
	n := 300
	if r.Tier == "thorough" {
		n = 5000
	}
	r.DirectionB("types", n, core.TLCOpts{Module: "TypesTrace", Cfg: "TypesTrace.cfg", HeapGB: 8})
	// sets with several revisions of the imported module, and two revisions of the importer pinned to them
	schema.RegistryReg(r)
}

// ---- direction B: random scope structures judged by TypesTrace.tla / TypesG.tla ------------

type gScope struct {
	id     int
	kind   string // top container list grouping rpc action input output notification
	parent int    // 0 for a top scope
	root   string
	kids   []int
	tds    []int // indices into gProg.tds
	uses   []int
}
type gOwn struct {
	Fd      int      `json:"fd"`
	Enums   []string `json:"enums"`
	Bits    []string `json:"bits"`
	Path    string   `json:"path"`
	Members []qn     `json:"members"`
}
type gTd struct {
	Scope int    `json:"scope"`
	Name  string `json:"name"`
	Base  qn     `json:"base"`
	Units string `json:"units"`
	Dflt  string `json:"dflt"`
	Pat   string `json:"pat"`
	Own   gOwn   `json:"own"`
}
type gObs struct {
	Kind    string              `json:"kind"`
	Units   string              `json:"units"`
	Dflt    string              `json:"dflt"`
	HasDflt bool                `json:"hasdflt"`
	Dvals   []string            `json:"dvals"`
	Pats    []string            `json:"pats"`
	Fd      int                 `json:"fd"`
	Enums   []string            `json:"enums"`
	Bits    []string            `json:"bits"`
	Path    string              `json:"path"`
	Members []map[string]string `json:"members"`
}
type gUse struct {
	Name  string `json:"name"`
	Scope int    `json:"scope"`
	Ref   qn     `json:"ref"`
	Pat   string `json:"pat"`
	Own   gOwn   `json:"own"`
	Obs   *gObs  `json:"obs"`
}
type gImp struct {
	P   string `json:"p"`
	Mod string `json:"mod"`
}
type gRoot struct {
	Name  string   `json:"name"`
	Owner string   `json:"owner"`
	Pfx   string   `json:"pfx"`
	Incs  []string `json:"incs"`
	Imps  []gImp   `json:"imps"`
	Top   int      `json:"top"`
}

var gNames = []string{"t0", "t1", "t2", "t3", "t4", "t5"}

func emptyOwn() gOwn { return gOwn{Enums: []string{}, Bits: []string{}, Members: []qn{}} }

func genTypes(body []byte) *core.Verdict {
	var q struct {
		Seed int64
		Tid  int
	}
	json.Unmarshal(body, &q)
	rng := rand.New(rand.NewSource(q.Seed*15485863 + int64(q.Tid)))
	// ---- modules and submodules ----
	nm := 1 + rng.Intn(3)
	var roots []gRoot
	scopes := []*gScope{nil} // ids start at 1
	newScope := func(kind string, parent int, root string) *gScope {
		s := &gScope{id: len(scopes), kind: kind, parent: parent, root: root}
		scopes = append(scopes, s)
		if parent != 0 {
			scopes[parent].kids = append(scopes[parent].kids, s.id)
		}
		return s
	}
	samePfx := rng.Intn(5) == 0 // every module calls itself "pp" (importers use prefixes of their own)
	var nested [][2]string      // (including submodule, submodule that only it includes)
	for i := 0; i < nm; i++ {
		name := fmt.Sprintf("m%d", i)
		pfx := fmt.Sprintf("p%d", i)
		if samePfx {
			pfx = "pp"
		}
		r := gRoot{Name: name, Pfx: pfx, Incs: []string{}, Imps: []gImp{}}
		for j := 0; j < i; j++ {
			if rng.Intn(4) > 0 {
				r.Imps = append(r.Imps, gImp{P: fmt.Sprintf("i%d", j), Mod: fmt.Sprintf("m%d", j)})
			}
		}
		r.Top = newScope("top", 0, name).id
		ns := rng.Intn(3)
		var subs []gRoot
		for s := 1; s <= ns; s++ {
			sn := fmt.Sprintf("m%ds%d", i, s)
			r.Incs = append(r.Incs, sn)
			sr := gRoot{Name: sn, Owner: name, Pfx: "own" + fmt.Sprint(i), Incs: []string{}, Imps: []gImp{}}
			for j := 0; j < i; j++ { // a submodule imports for itself, under prefixes of its own
				if rng.Intn(3) > 0 {
					sr.Imps = append(sr.Imps, gImp{P: fmt.Sprintf("s%d", j), Mod: fmt.Sprintf("m%d", j)})
				}
			}
			sr.Top = newScope("top", 0, sn).id
			subs = append(subs, sr)
		}
		if len(subs) == 2 && rng.Intn(2) == 0 {
			// the second submodule is reached only through the first one's include (the module does not list it): the first
			// one sees its top level, the module does not
			r.Incs = r.Incs[:1]
			subs[0].Incs = append(subs[0].Incs, subs[1].Name)
			nested = append(nested, [2]string{subs[0].Name, subs[1].Name})
		}
		roots = append(roots, r)
		roots = append(roots, subs...)
	}
	rootOf := map[string]*gRoot{}
	for i := range roots {
		rootOf[roots[i].Name] = &roots[i]
	}
	// ---- nested scopes ----
	allowed := map[string][]string{
		"top":          {"container", "container", "list", "grouping", "rpc", "notification"},
		"container":    {"container", "list", "grouping", "action", "notification"},
		"list":         {"container", "list", "grouping", "action"},
		"grouping":     {"container", "list", "grouping"},
		"rpc":          {"input", "output"},
		"action":       {"input", "output"},
		"input":        {"container", "list", "grouping"},
		"output":       {"container", "list", "grouping"},
		"notification": {"container", "list", "grouping"},
	}
	depth := func(s int) int {
		d := 0
		for ; s != 0; s = scopes[s].parent {
			d++
		}
		return d
	}
	for n := 3 + rng.Intn(12); n > 0; n-- {
		p := scopes[1+rng.Intn(len(scopes)-1)]
		if depth(p.id) >= 6 {
			continue
		}
		ks := allowed[p.kind]
		k := ks[rng.Intn(len(ks))]
		if k == "input" || k == "output" {
			dup := false
			for _, c := range p.kids {
				dup = dup || scopes[c].kind == k
			}
			if dup {
				continue
			}
		}
		newScope(k, p.id, p.root)
	}
	// ---- typedefs ----
	var tds []gTd
	enumPool := []string{"red", "green", "blue", "black", "white"}
	simple := []string{"string", "int8", "boolean", "empty", "binary", "uint16"}
	uniq := 0
	pickRef := func(sc *gScope, after int) qn {
		// a name later in the fixed order than the referring typedef's own (no cycle whatever it binds to) ...
		lo := after + 1
		if rng.Intn(120) == 0 {
			lo = 0 // ... except now and then
		}
		if lo >= len(gNames) {
			return qn{N: "string"}
		}
		n := gNames[lo+rng.Intn(len(gNames)-lo)]
		if rng.Intn(200) == 0 {
			n = "nosuch"
		}
		r := rootOf[sc.root]
		switch x := rng.Intn(10); {
		case x < 5:
			return qn{N: n}
		case x < 7:
			return qn{P: r.Pfx, N: n}
		default:
			if len(r.Imps) > 0 {
				return qn{P: r.Imps[rng.Intn(len(r.Imps))].P, N: n}
			}
			return qn{N: n}
		}
	}
	builtinOwn := func(sc *gScope, after int) (qn, gOwn, string) {
		own := emptyOwn()
		pat := ""
		switch rng.Intn(9) {
		case 0, 1:
			if rng.Intn(2) == 0 {
				uniq++
				pat = fmt.Sprintf("p%d.*", uniq%4) // few distinct patterns: equal ones along a chain are listed once
			}
			return qn{N: "string"}, own, pat
		case 2:
			return qn{N: "int32"}, own, ""
		case 3:
			own.Fd = 1 + rng.Intn(18)
			return qn{N: "decimal64"}, own, ""
		case 4:
			rng.Shuffle(len(enumPool), func(i, j int) { enumPool[i], enumPool[j] = enumPool[j], enumPool[i] })
			own.Enums = append([]string{}, enumPool[:1+rng.Intn(3)]...)
			return qn{N: "enumeration"}, own, ""
		case 5:
			rng.Shuffle(len(enumPool), func(i, j int) { enumPool[i], enumPool[j] = enumPool[j], enumPool[i] })
			own.Bits = append([]string{}, enumPool[:1+rng.Intn(3)]...)
			return qn{N: "bits"}, own, ""
		case 6:
			own.Path = fmt.Sprintf("/%s:tgt%d", rootOf[sc.root].Pfx, 1+rng.Intn(3))
			return qn{N: "leafref"}, own, ""
		case 7:
			rng.Shuffle(len(simple), func(i, j int) { simple[i], simple[j] = simple[j], simple[i] })
			nmem := 1 + rng.Intn(3)
			usedN := map[string]bool{}
			for k := 0; k < nmem; k++ {
				if rng.Intn(2) == 0 {
					own.Members = append(own.Members, qn{N: simple[k]})
				} else if r := pickRef(sc, after); !usedN[r.String()] && r.N != "string" {
					usedN[r.String()] = true // (t and i0:t may both be members: same name, different typedefs)
					own.Members = append(own.Members, r)
				}
			}
			if len(own.Members) == 0 {
				own.Members = append(own.Members, qn{N: "boolean"})
			}
			return qn{N: "union"}, own, ""
		}
		return qn{N: "boolean"}, own, ""
	}
	addTd := func(sc *gScope, ni int) {
		for _, k := range sc.tds {
			if tds[k].Name == gNames[ni] {
				return
			}
		}
		t := gTd{Scope: sc.id, Name: gNames[ni], Own: emptyOwn()}
		if ni == len(gNames)-1 || rng.Intn(10) < 4 {
			t.Base, t.Own, t.Pat = builtinOwn(sc, ni)
		} else {
			t.Base = pickRef(sc, ni)
			if rng.Intn(4) == 0 {
				uniq++
				t.Pat = fmt.Sprintf("p%d.*", uniq%4)
			}
		}
		uniq++
		if rng.Intn(2) == 0 {
			t.Units = fmt.Sprintf("U%d", uniq)
		} else if rng.Intn(5) == 0 {
			t.Units = "EMPTY" // the statement units ""; (it IS a statement: nearer than whatever the base states)
		}
		if rng.Intn(3) == 0 {
			t.Dflt = fmt.Sprintf("D%d", uniq)
		}
		sc.tds = append(sc.tds, len(tds))
		tds = append(tds, t)
	}
	// top level: a module and its submodules share one name space, so a name is defined by at most one of them
	// (which of two such definitions would win is not something the statement pins)
	for _, r := range roots {
		if r.Owner != "" {
			continue
		}
		fam := []gRoot{r}
		for _, in := range r.Incs {
			fam = append(fam, *rootOf[in])
		}
		for ni := range gNames {
			if rng.Intn(100) < 98 {
				h := fam[0]
				if len(fam) > 1 && rng.Intn(3) == 0 {
					h = fam[1+rng.Intn(len(fam)-1)]
				}
				addTd(scopes[h.Top], ni)
			}
		}
	}
	for n := rng.Intn(3 * len(scopes)); n > 0; n-- {
		if sc := scopes[1+rng.Intn(len(scopes)-1)]; sc.kind != "top" {
			addTd(sc, rng.Intn(len(gNames)))
		}
	}
	// ---- uses: leaves with a type ----
	var uses []gUse
	for n := 2 + rng.Intn(2*len(scopes)); n > 0; n-- {
		sc := scopes[1+rng.Intn(len(scopes)-1)]
		if sc.kind == "rpc" || sc.kind == "action" {
			continue // no data nodes directly below
		}
		u := gUse{Name: fmt.Sprintf("lf%d", len(uses)), Scope: sc.id, Own: emptyOwn()}
		if rng.Intn(10) < 3 {
			u.Ref, u.Own, u.Pat = builtinOwn(sc, -1)
		} else {
			u.Ref = pickRef(sc, -1)
			if rng.Intn(5) == 0 {
				uniq++
				u.Pat = fmt.Sprintf("p%d.*", uniq%4)
			}
		}
		sc.uses = append(sc.uses, len(uses))
		uses = append(uses, u)
	}
	// a typedef at the top level of a submodule that only another submodule includes, referred to from that one (directly
	// or through a typedef of its own): nothing else in the family names it
	for _, ns := range nested {
		s1, s2 := rootOf[ns[0]], rootOf[ns[1]]
		uniq++
		scopes[s2.Top].tds = append(scopes[s2.Top].tds, len(tds))
		tds = append(tds, gTd{Scope: s2.Top, Name: "tn", Base: qn{N: "int8"}, Own: emptyOwn(), Units: fmt.Sprintf("U%d", uniq)})
		ref := qn{N: "tn"}
		if rng.Intn(2) == 0 {
			ref.P = s1.Pfx
		}
		if rng.Intn(2) == 0 {
			scopes[s1.Top].tds = append(scopes[s1.Top].tds, len(tds))
			tds = append(tds, gTd{Scope: s1.Top, Name: "tm", Base: ref, Own: emptyOwn()})
			ref = qn{N: "tm"}
		}
		var in []*gScope
		for _, sc := range scopes[1:] {
			if sc.root == s1.Name && sc.kind != "rpc" && sc.kind != "action" {
				in = append(in, sc)
			}
		}
		sc := in[rng.Intn(len(in))]
		sc.uses = append(sc.uses, len(uses))
		uses = append(uses, gUse{Name: fmt.Sprintf("lf%d", len(uses)), Scope: sc.id, Ref: ref, Own: emptyOwn()})
	}
	// ---- rendering ----
	typeStmt := func(ref qn, pat string, own gOwn) string {
		var sub []string
		if ref.P == "" {
			switch ref.N {
			case "decimal64":
				sub = append(sub, fmt.Sprintf("fraction-digits %d;", own.Fd))
			case "enumeration":
				for _, e := range own.Enums {
					sub = append(sub, "enum "+e+";")
				}
			case "bits":
				for _, e := range own.Bits {
					sub = append(sub, "bit "+e+";")
				}
			case "leafref":
				sub = append(sub, fmt.Sprintf("path %q;", own.Path))
			case "union":
				for _, m := range own.Members {
					sub = append(sub, "type "+m.String()+";")
				}
			}
		}
		if pat != "" {
			sub = append(sub, fmt.Sprintf("pattern %q;", pat))
		}
		if len(sub) == 0 {
			return "type " + ref.String() + ";"
		}
		return "type " + ref.String() + " { " + strings.Join(sub, " ") + " }"
	}
	var render func(sc *gScope, ind string) string
	render = func(sc *gScope, ind string) string {
		var b strings.Builder
		for _, k := range sc.tds {
			t := tds[k]
			fmt.Fprintf(&b, "%stypedef %s { %s", ind, t.Name, typeStmt(t.Base, t.Pat, t.Own))
			if t.Units == "EMPTY" {
				b.WriteString(" units \"\";")
			} else if t.Units != "" {
				fmt.Fprintf(&b, " units %q;", t.Units)
			}
			if t.Dflt != "" {
				fmt.Fprintf(&b, " default %q;", t.Dflt)
			}
			b.WriteString(" }\n")
		}
		for _, k := range sc.uses {
			u := uses[k]
			fmt.Fprintf(&b, "%sleaf %s { %s }\n", ind, u.Name, typeStmt(u.Ref, u.Pat, u.Own))
		}
		for _, c := range sc.kids {
			ch := scopes[c]
			inner := render(ch, ind+"  ")
			switch ch.kind {
			case "list":
				fmt.Fprintf(&b, "%slist s%d { key k; leaf k { type string; }\n%s%s}\n", ind, c, inner, ind)
			case "grouping":
				fmt.Fprintf(&b, "%sgrouping g%d {\n%s%s}\n%scontainer ug%d { uses g%d; }\n", ind, c, inner, ind, ind, c, c)
			case "input", "output":
				fmt.Fprintf(&b, "%s%s {\n%s%s}\n", ind, ch.kind, inner, ind)
			default:
				fmt.Fprintf(&b, "%s%s s%d {\n%s%s}\n", ind, ch.kind, c, inner, ind)
			}
		}
		return b.String()
	}
	text := map[string]string{}
	var files []string
	for _, r := range roots {
		var b strings.Builder
		if r.Owner == "" {
			fmt.Fprintf(&b, "module %s { namespace \"urn:%s\"; prefix %s;\n", r.Name, r.Name, r.Pfx)
		} else {
			fmt.Fprintf(&b, "submodule %s { belongs-to %s { prefix %s; }\n", r.Name, r.Owner, r.Pfx)
		}
		for _, im := range r.Imps {
			fmt.Fprintf(&b, "  import %s { prefix %s; }\n", im.Mod, im.P)
		}
		for _, in := range r.Incs {
			fmt.Fprintf(&b, "  include %s;\n", in)
		}
		if r.Owner == "" {
			b.WriteString("  leaf tgt1 { type string; } leaf tgt2 { type string; } leaf tgt3 { type string; }\n")
		}
		b.WriteString(render(scopes[r.Top], "  "))
		b.WriteString("}\n")
		text[r.Name] = b.String()
		files = append(files, r.Name)
	}
	var all strings.Builder
	for _, f := range files {
		all.WriteString(text[f])
	}
	// ---- the real library ----
	ms := yang.NewModules()
	order := append([]string{}, files...)
	rng.Shuffle(len(order), func(i, j int) { order[i], order[j] = order[j], order[i] })
	for _, f := range order {
		if err := ms.Parse(text[f], f+".yang"); err != nil {
			return &core.Verdict{Infra: "generated schema does not parse: " + err.Error() + "\n" + all.String()}
		}
	}
	errs := ms.Process()
	found := map[string]*yang.Entry{}
	var walk func(e *yang.Entry)
	walk = func(e *yang.Entry) {
		if e == nil {
			return
		}
		if e.Kind == yang.LeafEntry && strings.HasPrefix(e.Name, "lf") {
			found[e.Name] = e
		}
		for _, c := range e.Dir {
			walk(c)
		}
		if e.RPC != nil {
			walk(e.RPC.Input)
			walk(e.RPC.Output)
		}
	}
	if len(errs) == 0 {
		for _, r := range roots {
			if r.Owner == "" {
				walk(yang.ToEntry(ms.Modules[r.Name]))
			}
		}
	}
	for i := range uses {
		o := &gObs{Dvals: []string{}, Pats: []string{}, Enums: []string{}, Bits: []string{}, Members: []map[string]string{}}
		uses[i].Obs = o
		if len(errs) > 0 {
			continue
		}
		l := found[uses[i].Name]
		if l == nil || l.Type == nil {
			o.Kind = "leaf not found in the module tree"
			continue
		}
		y := l.Type
		o.Kind, o.Units, o.Dflt, o.HasDflt, o.Fd, o.Path = yang.TypeKindToName[y.Kind], y.Units, y.Default, y.HasDefault, y.FractionDigits, y.Path
		o.Dvals = append(o.Dvals, l.DefaultValues()...)
		o.Pats = append(o.Pats, y.Pattern...)
		if y.Enum != nil {
			o.Enums = append(o.Enums, y.Enum.Names()...)
		}
		if y.Bit != nil {
			o.Bits = append(o.Bits, y.Bit.Names()...)
		}
		for _, m := range y.Type {
			o.Members = append(o.Members, map[string]string{"kind": yang.TypeKindToName[m.Kind], "units": m.Units})
		}
	}
	type jscope struct {
		Parent int    `json:"parent"`
		Root   string `json:"root"`
	}
	var js []jscope
	for _, s := range scopes[1:] {
		js = append(js, jscope{s.parent, s.root})
	}
	if tds == nil {
		tds = []gTd{}
	}
	if uses == nil {
		uses = []gUse{}
	}
	ev := map[string]any{"ev": "types", "scopes": js, "roots": roots, "tds": tds, "uses": uses, "err": len(errs) > 0, "yang": all.String()}
	e0, _ := json.Marshal(map[string]any{"ev": "reset", "tid": q.Tid})
	e1, _ := json.Marshal(ev)
	class := "resolves"
	if len(errs) > 0 {
		class = "unresolvable"
	}
	v := &core.Verdict{OK: true, Class: "generated:" + class, NT: len(tds) >= 4 && len(errs) == 0, Events: []json.RawMessage{e0, e1}}
	if q.Tid == 1 {
		v.Sample = map[string]any{"yang": all.String()}
	}
	return v
}
