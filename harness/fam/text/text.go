// Package text binds Text.tla to yang.Parse: C02 (forest and arguments) and
// the lexical / syntactic part of C16 (positions).
package text

import (
	"encoding/json"
	"fmt"
	"math/rand"
	"regexp"
	"strconv"
	"strings"

	"github.com/openconfig/goyang/pkg/yang"
	"verifharness/core"
)

func init() {
	core.Register(&core.Family{Name: "text", Exec: exec, Classify: classify})
	core.Checks["C02"] = func(r *core.Run) { check(r, "C02") }
	core.Checks["C16"] = func(r *core.Run) { check16(r) }
}

type stmt struct {
	Kw   []string `json:"kw"`
	Has  bool     `json:"has"`
	Arg  []string `json:"arg"`
	Kids []stmt   `json:"kids"`
	Line int      `json:"line"`
	Col  int      `json:"col"`
}
type pos struct {
	Line  int  `json:"line"`
	Col   int  `json:"col"`
	Fuzzy bool `json:"fuzzy"`
}
type res struct {
	Accept bool   `json:"accept"`
	Forest []stmt `json:"forest"`
	Nf     int    `json:"nf"`
	Err    pos    `json:"err"`
}
type cas struct {
	Text []string `json:"text"`
	Out  bool     `json:"out"`
	Res  res      `json:"res"`
	Prop string   `json:"prop"`
}

// j renders model characters; "E" stands for a multi-byte character: U+00E9, and in turn the characters that Unicode
// calls white space but RFC 7950 does not (an unquoted token ends only at space, tab, CR, LF, a quote, ";", "{", "}"):
// U+0085, U+00A0, U+2028, U+3000 are ordinary characters of a YANG text.
var mbChar = "é"
var mbChars = []string{"é", "\u0085", "\u00a0", "\u2028", "\u3000"}

func j(ss []string) string { return strings.ReplaceAll(strings.Join(ss, ""), "E", mbChar) }

func classify(kind byte, body []byte) string {
	if kind != 'A' {
		return "generated"
	}
	var c cas
	if json.Unmarshal(body, &c) != nil {
		return "?"
	}
	return classOf(&c)
}

func classOf(c *cas) string {
	t := j(c.Text)
	switch {
	case strings.Contains(t, "/*/"):
		return "comment-opener-star-slash"
	case c.Res.Accept:
		return "accepted"
	case c.Res.Nf == 1:
		return "single-fault"
	}
	return "rejected"
}

func proj(s *yang.Statement, withPos bool) string {
	a, has := s.Arg()
	var k []string
	for _, c := range s.SubStatements() {
		k = append(k, proj(c, withPos))
	}
	p := ""
	if withPos {
		p = " @" + s.Location()
	}
	return fmt.Sprintf("(%q %v %q%s [%s])", s.Keyword, has, a, p, strings.Join(k, " "))
}

func exp(s stmt, withPos bool) string {
	var k []string
	for _, c := range s.Kids {
		k = append(k, exp(c, withPos))
	}
	p := ""
	if withPos {
		p = fmt.Sprintf(" @f:%d:%d", s.Line, s.Col)
	}
	return fmt.Sprintf("(%q %v %q%s [%s])", j(s.Kw), s.Has, j(s.Arg), p, strings.Join(k, " "))
}

var rePos = regexp.MustCompile(`^f:(-?\d+):(-?\d+):`)

func exec(kind byte, body []byte) *core.Verdict {
	if kind == 'B' {
		return gen(body)
	}
	var c cas
	if err := json.Unmarshal(body, &c); err != nil {
		return &core.Verdict{Infra: "case: " + err.Error()}
	}
	hasE := false
	for _, ch := range c.Text {
		hasE = hasE || ch == "E"
	}
	v := judge(&c)
	if hasE && v.OK && v.Infra == "" {
		v.N = 1
		for _, m := range mbChars[1:] {
			mbChar = m
			v2 := judge(&c)
			mbChar = mbChars[0]
			if !v2.OK || v2.Infra != "" {
				return v2
			}
			v.N++
		}
	}
	return v
}

func judge(c *cas) *core.Verdict {
	text := j(c.Text)
	v := &core.Verdict{OK: true, Class: classOf(c), Out: c.Out}
	v.NT = c.Res.Accept && len(c.Res.Forest) > 0 || c.Res.Nf == 1
	ss, err := yang.Parse(text, "f")
	fail := func(sig, f string, a ...any) *core.Verdict {
		v.OK, v.Sig, v.Detail = false, sig, fmt.Sprintf("text %q: ", text)+fmt.Sprintf(f, a...)
		return v
	}
	if c.Out {
		return v // executed (crash monitor), not compared
	}
	if c.Prop == "C16" {
		// positions only
		if c.Res.Accept {
			if err != nil {
				return v // acceptance is C02's business
			}
			var g, w []string
			for _, s := range ss {
				g = append(g, proj(s, true))
			}
			for _, s := range c.Res.Forest {
				w = append(w, exp(s, true))
			}
			if strings.Join(g, " ") != strings.Join(w, " ") {
				return fail("statement-position", "specification %s, library %s", strings.Join(w, " "), strings.Join(g, " "))
			}
			return v
		}
		if c.Res.Nf != 1 || c.Res.Err.Fuzzy || err == nil {
			v.NT = false
			return v
		}
		first := strings.SplitN(err.Error(), "\n", 2)[0]
		m := rePos.FindStringSubmatch(first)
		if m == nil {
			return fail("error-without-position", "single fault at %d:%d, first error %q", c.Res.Err.Line, c.Res.Err.Col, first)
		}
		l, _ := strconv.Atoi(m[1])
		cl, _ := strconv.Atoi(m[2])
		if l != c.Res.Err.Line || cl != c.Res.Err.Col {
			return fail("error-position", "the offending token is at %d:%d, the first error says %q", c.Res.Err.Line, c.Res.Err.Col, first)
		}
		return v
	}
	// C02: acceptance, forest, arguments
	if err != nil {
		if ss != nil {
			return fail("statements-on-rejection", "error %q with %d statements", err, len(ss))
		}
		if err.Error() == "" {
			return fail("empty-error", "rejected with an empty error")
		}
		if c.Res.Accept {
			return fail("rejects-wellformed", "well-formed, expected %s, library error %q", exp(stmt{Kids: c.Res.Forest}, false), err)
		}
		return v
	}
	if !c.Res.Accept {
		var g []string
		for _, s := range ss {
			g = append(g, proj(s, false))
		}
		return fail("accepts-malformed", "not a well-formed statement sequence, library returned %s", strings.Join(g, " "))
	}
	var g, w []string
	for _, s := range ss {
		g = append(g, proj(s, false))
	}
	for _, s := range c.Res.Forest {
		w = append(w, exp(s, false))
	}
	if strings.Join(g, " ") != strings.Join(w, " ") {
		return fail("forest-differs", "specification %s, library %s", strings.Join(w, " "), strings.Join(g, " "))
	}
	if len(c.Res.Forest) == 1 && len(c.Res.Forest[0].Kids) == 1 {
		v.Sample = map[string]any{"text": text, "forest": strings.Join(w, " ")}
	}
	return v
}

// ---- direction B: grammar-directed random modules and corruptions -----------

type g struct {
	rng *rand.Rand
	sb  strings.Builder
}

func (x *g) ws() {
	for i, n := 0, x.rng.Intn(3); i <= n; i++ {
		switch x.rng.Intn(12) {
		case 0:
			x.sb.WriteString("\n")
		case 1:
			x.sb.WriteString("\t")
		case 2:
			if x.rng.Intn(2) == 0 {
				x.sb.WriteString("/* c \n * é \n\n   d */") // several line feeds, something may follow on the closing line
			} else {
				x.sb.WriteString("/* c \n * é */")
			}
		case 3:
			x.sb.WriteString("// é c\n")
		case 4:
			x.sb.WriteString("\r\n")
		case 5:
			x.sb.WriteString("\n    ")
		default:
			x.sb.WriteString(" ")
		}
	}
}

func (x *g) word() string {
	w := []string{"leaf", "container", "a", "b-c", "p:ext", "type", "é", "x.y", "+x", "a+b", "/a/b", "1..5", "description", "pattern", "a*b"}
	return w[x.rng.Intn(len(w))]
}

func (x *g) dq(pattern bool) {
	x.sb.WriteString("\"")
	for i, n := 0, x.rng.Intn(8); i < n; i++ {
		switch x.rng.Intn(14) {
		case 0:
			x.sb.WriteString("\\n")
		case 1:
			x.sb.WriteString("\\t")
		case 2:
			x.sb.WriteString("\\\"")
		case 3:
			x.sb.WriteString("\\\\")
		case 4:
			x.sb.WriteString("\n")
			x.sb.WriteString(strings.Repeat(" ", x.rng.Intn(14)))
		case 5:
			x.sb.WriteString("  \n\t ")
		case 6:
			if pattern {
				x.sb.WriteString("\\d")
			} else {
				x.sb.WriteString("'")
			}
		case 7:
			x.sb.WriteString(" ")
		case 8:
			x.sb.WriteString("é")
		case 9:
			x.sb.WriteString("{;}")
		default:
			x.sb.WriteString("w" + strconv.Itoa(i))
		}
	}
	x.sb.WriteString("\"")
}

func (x *g) arg(pattern bool) {
	switch x.rng.Intn(5) {
	case 0:
		x.sb.WriteString(x.word())
	case 1:
		switch x.rng.Intn(3) {
		case 0:
			x.sb.WriteString("'s\nq\n\nr é'")
		case 1:
			x.sb.WriteString("'s q\n \\n \"'")
		default:
			x.sb.WriteString("'s\r\nq \r\n\r\nr'") // single-quoted text is verbatim, carriage returns included
		}
	default:
		x.dq(pattern)
		for x.rng.Intn(4) == 0 {
			if x.rng.Intn(2) == 0 {
				x.ws()
			}
			x.sb.WriteString("+")
			if x.rng.Intn(2) == 0 {
				x.ws()
			}
			if x.rng.Intn(3) == 0 {
				x.sb.WriteString("'q'")
			} else {
				x.dq(pattern)
			}
		}
	}
}

func (x *g) stmt(depth int) {
	kw := x.word()
	for strings.HasPrefix(kw, "+") { // a keyword is an unquoted token; "+x" is one too, keep it simple
		kw = x.word()
	}
	x.sb.WriteString(kw)
	if x.rng.Intn(6) > 0 {
		x.ws()
		x.arg(kw == "pattern")
	}
	if x.rng.Intn(3) == 0 {
		x.ws()
	}
	if depth < 5 && x.rng.Intn(3) == 0 {
		x.sb.WriteString("{")
		for i, n := 0, x.rng.Intn(4); i < n; i++ {
			x.ws()
			x.stmt(depth + 1)
		}
		x.ws()
		x.sb.WriteString("}")
	} else {
		x.sb.WriteString(";")
	}
}

func chars(s string) []string {
	var out []string
	for _, r := range s {
		if r == 'é' {
			out = append(out, "E")
		} else if r == 'E' {
			out = append(out, "e")
		} else {
			out = append(out, string(r))
		}
	}
	if out == nil {
		out = []string{}
	}
	return out
}

func jstmt(s *yang.Statement) map[string]any {
	a, has := s.Arg()
	kids := []any{}
	for _, c := range s.SubStatements() {
		kids = append(kids, jstmt(c))
	}
	l, c := 0, 0
	if m := regexp.MustCompile(`^f:(\d+):(\d+)$`).FindStringSubmatch(s.Location()); m != nil {
		l, _ = strconv.Atoi(m[1])
		c, _ = strconv.Atoi(m[2])
	}
	return map[string]any{"kw": chars(s.Keyword), "has": has, "arg": chars(a), "kids": kids, "line": l, "col": c}
}

func gen(body []byte) *core.Verdict {
	var q struct {
		Seed int64
		Tid  int
	}
	json.Unmarshal(body, &q)
	x := &g{rng: rand.New(rand.NewSource(q.Seed*32452843 + int64(q.Tid)))}
	wide := false // (very long lines are explored exhaustively: MCText_wide)
	for i, n := 0, 1+x.rng.Intn(3); i < n; i++ {
		if x.rng.Intn(2) == 0 {
			x.ws()
		}
		if wide && i == 1 || wide && n == 1 {
			fill := 4090 + x.rng.Intn(20)
			switch x.rng.Intn(3) {
			case 0:
				x.sb.WriteString(strings.Repeat(" ", fill))
			case 1:
				x.sb.WriteString("d \"" + strings.Repeat("a", fill) + "\"; ")
			default:
				x.sb.WriteString("/*" + strings.Repeat("c", fill) + "*/")
			}
			wide = false
		}
		x.stmt(0)
	}
	x.ws()
	text := strings.ReplaceAll(x.sb.String(), "E", "e")
	if x.rng.Intn(3) == 0 && len(text) > 0 { // a corruption: delete, duplicate or replace one character
		rs := []rune(text)
		i := x.rng.Intn(len(rs))
		switch x.rng.Intn(3) {
		case 0:
			rs = append(rs[:i], rs[i+1:]...)
		case 1:
			rs = append(rs[:i+1], rs[i:]...)
		default:
			rs[i] = []rune("\";{}'\\+ /*\n")[x.rng.Intn(11)]
		}
		text = string(rs)
	}
	v := &core.Verdict{OK: true, Class: "generated", NT: true}
	ss, err := yang.Parse(text, "f")
	ev := map[string]any{"ev": "text", "chars": chars(text), "accept": err == nil, "errline": 0, "errcol": 0, "haserr": false}
	forest := []any{}
	if err == nil {
		for _, s := range ss {
			forest = append(forest, jstmt(s))
		}
	} else {
		if ss != nil || err.Error() == "" {
			ev["accept"] = true // misreport so that the trace is rejected: statements on rejection / empty error
		}
		if m := rePos.FindStringSubmatch(strings.SplitN(err.Error(), "\n", 2)[0]); m != nil {
			ev["errline"], _ = strconv.Atoi(m[1])
			ev["errcol"], _ = strconv.Atoi(m[2])
			ev["haserr"] = true
		}
	}
	ev["forest"] = forest
	r, _ := json.Marshal(map[string]any{"ev": "reset", "tid": q.Tid})
	b, _ := json.Marshal(ev)
	v.Events = []json.RawMessage{r, b}
	if q.Tid <= 2 {
		v.Sample = map[string]any{"direction": "B", "text": text, "accepted": err == nil}
	}
	return v
}

func cfgs(tier string) []string {
	if tier == "thorough" {
		return []string{"raw5", "dq1_6", "dq2_6", "dq3_6", "pat_6", "patblk_5", "cmt_6", "sq_6", "cmttab_6", "sqtab_6", "run_11", "yv_6", "mb_5", "wide_3", "tok5"}
	}
	return []string{"raw4", "dq1_5", "dq2_5", "dq3_5", "pat_5", "patblk_5", "cmt_5", "sq_5", "cmttab_5", "sqtab_5", "run_10", "yv_5", "mb_4", "wide_2", "tok5"}
}

func check(r *core.Run, prop string) {
	n := 400
	if r.Tier == "thorough" {
		n = 6000
	}
	r.Rule = "A: every text over a 16-symbol alphabet (every character class of the reader, a multi-byte character included) up to the bound; every continuation of 7 prefixes (plain, tab-indented, `pattern`, inside the block of a pattern statement (closed by a fixed suffix), after a block comment, after a single-quoted piece and '+', after multi-byte comments and strings) over a 10-symbol string alphabet; every text of up to 2 (3) characters after a statement and 4093 blanks on one line (columns beyond 4096); every sequence of whole lexemes (keyword, argument, multi-line double-quoted string, single-quoted string, +, ;, {, }, both comment forms, blank, LF, CR LF) up to the bound; each parsed by yang.Parse and compared with the reader of Text.tla (acceptance, keywords, argument presence, exact argument strings, nesting, order); B: grammar-directed random modules of nesting 6 with comments, concatenations, multi-line strings, and single-character corruptions, judged by TextTrace.tla. Non-trivial = accepted non-empty forest or exactly one token-level fault."
	r.Exhaustive = true
	r.Assumptions = []string{"the four constructs the quantifier leaves ambiguous are executed (crash monitor) but not compared", "a backslash before a literal line break inside a pattern argument is treated as ambiguous too"}
	core.CaseSuffix = `,"prop":"` + prop + `"}`
	for _, c := range cfgs(r.Tier) {
		r.DirectionA("text", core.TLCOpts{Module: "MCText", Cfg: "MCText_" + c + ".cfg", Workers: 16, Timeout: 0, HeapGB: 16}, nil)
	}
	core.CaseSuffix = ""
	r.DirectionB("text", n, core.TLCOpts{Module: "TextTrace", Cfg: "TextTrace_" + prop + ".cfg", Timeout: 0})
}

func check16(r *core.Run) {
	check(r, "C16")
	r.Rule = "Text part as C02 but comparing positions: the file:line:col of every statement of every accepted text, and the leading file:line:col of the first error for every rejected text with exactly one token-level fault (invalid escape, unterminated string or comment, the first token the grammar does not allow; a `+` not followed by a quoted string is disputable and skipped; end-of-input reports are outside the claim). " + r.Rule
	Semantic(r)
	Resolve(r)
	Files(r)
}

// semantic is filled in by the Ast family part of C16 (positions in errors
// from building and resolving a module).
var Semantic = func(r *core.Run) {}

// Files is filled in by the registry family: the file name in the positions of modules found through the search path.
var Files = func(r *core.Run) {}

// Resolve is filled in by the hazard family: positions in errors from resolving.
var Resolve = func(r *core.Run) {}
