// Package schema binds Schema.tla to Modules.Parse / Process and the Entry
// tree: C04 C05 C06 C07 C08 C12 C13 C17.
package schema

import (
	"encoding/json"
	"fmt"
	"sort"
	"strings"

	"github.com/openconfig/goyang/pkg/yang"
)

// ---- the abstract program (Appendix A of DESIGN.md) -------------------------

type Stmt struct {
	Kw   string          `json:"kw"`
	Arg  json.RawMessage `json:"arg"`
	Kids []Stmt          `json:"kids"`
}
type QN struct {
	P string `json:"p"`
	N string `json:"n"`
}
type strmap map[string]string

func (m *strmap) UnmarshalJSON(b []byte) error {
	if len(b) > 0 && b[0] == '[' { // the empty function serialises as []
		*m = strmap{}
		return nil
	}
	var x map[string]string
	if err := json.Unmarshal(b, &x); err != nil {
		return err
	}
	*m = x
	return nil
}

type Module struct {
	Name     string   `json:"name"`
	Kind     string   `json:"kind"`
	Pfx      string   `json:"pfx"`
	Ns       string   `json:"ns"`
	Belongs  string   `json:"belongs"`
	Imports  strmap   `json:"imports"`
	Includes []string `json:"includes"`
	Body     []Stmt   `json:"body"`
	Rev      string   `json:"rev,omitempty"`
}
type Prog struct {
	Mods     map[string]Module `json:"mods"`
	IgnoreNS bool              `json:"ignoreNS"`
}
type LA struct {
	Has bool `json:"has"`
	Min int  `json:"min"`
	Max int  `json:"max"`
}
type Fact struct {
	P        []string `json:"p"`
	Kind     string   `json:"kind"`
	Ro       bool     `json:"ro"`
	Ns       string   `json:"ns"`
	Implicit bool     `json:"implicit"`
	Cfg      string   `json:"cfg"`
	Mand     string   `json:"mand"`
	Dflt     []string `json:"dflt"`
	La       LA       `json:"la"`
	Units    string   `json:"units"`
	Type     string   `json:"type"`
	Iff      []string `json:"iff"`
	Dv       []string `json:"dv"`              // DefaultValues()
	Idb      string   `json:"idb"`             // module of the identity an identityref's base denotes
	Opcfg    bool     `json:"opcfg,omitempty"` // specification side only: an explicit config applies inside an rpc / action / notification
}
type flatmap map[string][]Fact

func (m *flatmap) UnmarshalJSON(b []byte) error {
	if len(b) > 0 && b[0] == '[' {
		*m = flatmap{}
		return nil
	}
	var x map[string][]Fact
	if err := json.Unmarshal(b, &x); err != nil {
		return err
	}
	*m = x
	return nil
}

type Case struct {
	Prog Prog    `json:"prog"`
	Errs bool    `json:"errs"`
	Flat flatmap `json:"flat"`
	Late bool    `json:"late"` // an augment target goes through an implicit case (outside C07's claim)
	Prop string  `json:"prop"`
}

const unb = 999999

// ---- rendering ----------------------------------------------------------------

func argText(s Stmt) (string, bool) {
	if len(s.Arg) == 0 {
		return "", false
	}
	switch s.Arg[0] {
	case '"':
		var str string
		json.Unmarshal(s.Arg, &str)
		return str, true
	case '{':
		var q QN
		json.Unmarshal(s.Arg, &q)
		if q.P == "" {
			return q.N, true
		}
		return q.P + ":" + q.N, true
	case '[':
		var qs []QN
		json.Unmarshal(s.Arg, &qs)
		r := ""
		rel := len(qs) > 0 && qs[0].P == "rel" // a descendant-form path: no leading slash
		if rel {
			qs = qs[1:]
		}
		for _, q := range qs {
			if q.P == "" {
				r += "/" + q.N
			} else {
				r += "/" + q.P + ":" + q.N
			}
		}
		if rel {
			r = strings.TrimPrefix(r, "/")
		}
		return r, true
	default: // a number
		var n int
		json.Unmarshal(s.Arg, &n)
		if n == unb {
			return "unbounded", true
		}
		return fmt.Sprint(n), true
	}
}

func render(w *strings.Builder, s Stmt, ind string) {
	a, _ := argText(s)
	switch s.Kw {
	case "input", "output":
		fmt.Fprintf(w, "%s%s", ind, s.Kw)
	default:
		fmt.Fprintf(w, "%s%s %q", ind, s.Kw, a)
	}
	if len(s.Kids) == 0 {
		w.WriteString(";\n")
		return
	}
	w.WriteString(" {\n")
	for _, k := range s.Kids {
		render(w, k, ind+"  ")
	}
	fmt.Fprintf(w, "%s}\n", ind)
}

// RenderModule writes the module as YANG text; statement i of the body starts
// on a line of its own.
func RenderModule(m Module) string {
	var w strings.Builder
	if m.Kind == "submodule" {
		fmt.Fprintf(&w, "submodule %s {\n  belongs-to %s { prefix %s; }\n", m.Name, m.Belongs, m.Pfx)
	} else {
		fmt.Fprintf(&w, "module %s {\n  namespace %q;\n  prefix %s;\n", m.Name, m.Ns, m.Pfx)
	}
	var ps []string
	for p := range m.Imports {
		ps = append(ps, p)
	}
	sort.Strings(ps)
	for _, p := range ps {
		fmt.Fprintf(&w, "  import %s { prefix %s; }\n", m.Imports[p], p)
	}
	for _, i := range m.Includes {
		fmt.Fprintf(&w, "  include %s;\n", i)
	}
	if m.Rev != "" {
		fmt.Fprintf(&w, "  revision %s;\n", m.Rev)
	}
	for _, s := range m.Body {
		render(&w, s, "  ")
	}
	w.WriteString("}\n")
	return w.String()
}

func (p *Prog) names() []string {
	var ns []string
	for n := range p.Mods {
		ns = append(ns, n)
	}
	sort.Strings(ns)
	return ns
}

func (p *Prog) text() string {
	var sb strings.Builder
	for _, n := range p.names() {
		sb.WriteString(RenderModule(p.Mods[n]))
	}
	return sb.String()
}

// ---- running the real library ----------------------------------------------------

// Load parses the modules in the given order and processes them.
func Load(p *Prog, order []string) (*yang.Modules, []error, error) {
	ms := yang.NewModules()
	ms.ParseOptions.DeviateOptions.IgnoreDeviateNotSupported = p.IgnoreNS
	for _, n := range order {
		if err := ms.Parse(RenderModule(p.Mods[n]), n+".yang"); err != nil {
			return ms, nil, err
		}
	}
	return ms, ms.Process(), nil
}

func kindOf(e *yang.Entry) string {
	switch {
	case e.Kind == yang.LeafEntry && e.ListAttr != nil:
		return "leaf-list"
	case e.Kind == yang.LeafEntry:
		return "leaf"
	case e.Kind == yang.InputEntry:
		return "input"
	case e.Kind == yang.OutputEntry:
		return "output"
	case e.Kind == yang.NotificationEntry:
		return "notification"
	case e.Kind == yang.AnyXMLEntry:
		return "anyxml"
	case e.Kind == yang.AnyDataEntry:
		return "anydata"
	case e.Kind == yang.ChoiceEntry:
		return "choice"
	case e.Kind == yang.CaseEntry:
		return "case"
	case e.RPC != nil:
		if _, ok := e.Node.(*yang.Action); ok {
			return "action"
		}
		return "rpc"
	case isAction(e):
		return "action"
	case e.ListAttr != nil:
		return "list"
	}
	return "container"
}

func isAction(e *yang.Entry) bool { _, ok := e.Node.(*yang.Action); return ok }

// children: every entry reachable in one step, by name (Dir and rpc input/output).
func children(e *yang.Entry) map[string]*yang.Entry {
	m := map[string]*yang.Entry{}
	for k, v := range e.Dir {
		m[k] = v
	}
	if e.RPC != nil {
		if e.RPC.Input != nil {
			m["input"] = e.RPC.Input
		}
		if e.RPC.Output != nil {
			m["output"] = e.RPC.Output
		}
	}
	return m
}

func sortedKeys(m map[string]*yang.Entry) []string {
	var ks []string
	for k := range m {
		ks = append(ks, k)
	}
	sort.Strings(ks)
	return ks
}

// Observed is a fact about one path of a real tree.
type Observed struct {
	Fact
	Imod  string
	Entry *yang.Entry
}

func tri(t yang.TriState) string { return t.String() }

// Flatten projects a real module tree onto the per-path facts of Schema.tla's Flat.
func Flatten(root *yang.Entry) map[string]*Observed {
	out := map[string]*Observed{}
	var walk func(e *yang.Entry, p []string)
	walk = func(e *yang.Entry, p []string) {
		ks := children(e)
		for _, k := range sortedKeys(ks) {
			c := ks[k]
			cp := append(append([]string{}, p...), k)
			kind := kindOf(c)
			if (kind == "input" || kind == "output") && len(children(c)) == 0 {
				continue // unwritten, untouched input / output
			}
			o := &Observed{Entry: c}
			o.P, o.Kind, o.Ro = cp, kind, c.ReadOnly()
			if ns := c.Namespace(); ns != nil {
				o.Ns = ns.Name
			}
			o.Imod, _ = c.InstantiatingModule()
			o.Cfg, o.Mand = tri(c.Config), tri(c.Mandatory)
			o.Dflt = append([]string{}, c.Default...)
			if c.ListAttr != nil {
				o.La = LA{Has: true, Min: int(c.ListAttr.MinElements), Max: unb}
				if c.ListAttr.MaxElements != ^uint64(0) {
					o.La.Max = int(c.ListAttr.MaxElements)
				}
			} else {
				o.La = LA{Max: unb}
			}
			o.Units = c.Units
			if c.Type != nil {
				o.Type = c.Type.Name
			}
			o.Dv = append([]string{}, c.DefaultValues()...)
			if c.Type != nil && c.Type.IdentityBase != nil {
				if r := yang.RootNode(c.Type.IdentityBase); r != nil {
					o.Idb = r.Name
					if r.BelongsTo != nil {
						o.Idb = r.BelongsTo.Name
					}
				} else {
					o.Idb = "?"
				}
			}
			o.Iff = []string{}
			for _, x := range c.Extra["if-feature"] {
				if v, ok := x.(*yang.Value); ok && v != nil {
					o.Iff = append(o.Iff, v.Name)
				} else {
					o.Iff = append(o.Iff, fmt.Sprintf("?%T", x))
				}
			}
			out[strings.Join(cp, "/")] = o
			walk(c, cp)
		}
	}
	walk(root, nil)
	return out
}

// Text and Names are exported for development tools.
func Text(p *Prog) string    { return p.text() }
func Names(p *Prog) []string { return p.names() }
