package schema

import (
	"encoding/json"
	"fmt"
	"os"
	"reflect"
	"sort"
	"strconv"
	"strings"

	"github.com/openconfig/goyang/pkg/yang"
	"verifharness/core"
)

func init() {
	core.Register(&core.Family{Name: "schema", Exec: exec, Classify: classify, NeedCompared: true})
}

// ---- the observed pointer graph -------------------------------------------------

// HeapEntry is one Entry object of the real pointer graph (Appendix A).
type HeapEntry struct {
	ID      int      `json:"id"`
	Name    string   `json:"name"`
	Kind    string   `json:"kind"`
	Parent  int      `json:"parent"`
	Dir     [][2]any `json:"dir"` // [name, id]
	RPCIn   int      `json:"rpcIn"`
	RPCOut  int      `json:"rpcOut"`
	NErrs   int      `json:"nerrs"`
	NAug    int      `json:"naug"`
	HasType bool     `json:"hasType"`
	HasLA   bool     `json:"hasListAttr"`
	HasDir  bool     `json:"hasDir"`
	Extra   int      `json:"extra"` // identity of the Extra map (0 = nil)
}

// Heap dumps every Entry reachable from the module roots, following every
// pointer (Dir, RPC.Input/Output), with ids in order of first visit.
func Heap(ms *yang.Modules, names []string) (roots map[string]int, entries []HeapEntry, byID []*yang.Entry) {
	ids := map[*yang.Entry]int{}
	extraIDs := map[uintptr]int{}
	roots = map[string]int{}
	var visit func(e *yang.Entry) int
	visit = func(e *yang.Entry) int {
		if e == nil {
			return 0
		}
		if id, ok := ids[e]; ok {
			return id
		}
		id := len(entries) + 1
		ids[e] = id
		entries = append(entries, HeapEntry{})
		byID = append(byID, e)
		h := HeapEntry{ID: id, Name: e.Name, Kind: kindOf(e), NErrs: len(e.Errors), NAug: len(e.Augments),
			HasType: e.Type != nil, HasLA: e.ListAttr != nil, HasDir: e.Dir != nil, Dir: [][2]any{}}
		if e.Extra != nil {
			ptr := reflect.ValueOf(e.Extra).Pointer()
			if _, ok := extraIDs[ptr]; !ok {
				extraIDs[ptr] = len(extraIDs) + 1
			}
			h.Extra = extraIDs[ptr]
		}
		var ks []string
		for k := range e.Dir {
			ks = append(ks, k)
		}
		sort.Strings(ks)
		for _, k := range ks {
			h.Dir = append(h.Dir, [2]any{k, visit(e.Dir[k])})
		}
		if e.RPC != nil {
			h.RPCIn, h.RPCOut = visit(e.RPC.Input), visit(e.RPC.Output)
		}
		entries[id-1] = h
		return id
	}
	for _, n := range names {
		var m *yang.Module
		if m = ms.Modules[n]; m == nil {
			m = ms.SubModules[n]
		}
		if m == nil {
			continue
		}
		e := yang.ToEntry(m)
		roots[n] = visit(e)
		entries[roots[n]-1].Kind = "module"
	}
	// parents last: a parent outside the dump gets id -1
	for i, e := range byID {
		switch {
		case e.Parent == nil:
			entries[i].Parent = 0
		default:
			if id, ok := ids[e.Parent]; ok {
				entries[i].Parent = id
			} else {
				entries[i].Parent = -1
			}
		}
	}
	return
}

// ---- classes of abstract cases (for known findings and crash attribution) -------------

func classOf(c *Case) string {
	var tags []string
	has := map[string]bool{}
	var walk func(ss []Stmt, in string)
	walk = func(ss []Stmt, in string) {
		for _, s := range ss {
			switch s.Kw {
			case "augment":
				has["augment"] = true
			case "deviation":
				has["deviation"] = true
			case "uses":
				has["uses"] = true
			}
			walk(s.Kids, s.Kw)
		}
	}
	for _, m := range c.Prog.Mods {
		walk(m.Body, "")
		if m.Kind == "submodule" {
			has["submodule"] = true
		}
	}
	for k := range has {
		tags = append(tags, k)
	}
	sort.Strings(tags)
	if len(tags) == 0 {
		return "plain"
	}
	return strings.Join(tags, "+")
}

func classify(kind byte, body []byte) string {
	var c Case
	if kind != 'A' || json.Unmarshal(body, &c) != nil {
		return "generated"
	}
	return classOf(&c)
}

// ---- judging one exported case ---------------------------------------------------------

func exec(kind byte, body []byte) *core.Verdict {
	if kind == 'B' {
		return gen(body)
	}
	var c Case
	if err := json.Unmarshal(body, &c); err != nil {
		return &core.Verdict{Infra: "case: " + err.Error()}
	}
	return judge(&c)
}

func focusOf(prop string) map[string]bool {
	f := map[string]bool{}
	for _, k := range map[string][]string{
		"C04": {"heap", "errs"},
		"C05": {"determinism"},
		"C06": {"struct", "attrs", "ns", "errs", "heap"},
		"C07": {"struct", "ns", "errs"},
		"C08": {"struct", "attrs", "errs", "frame"},
		"C12": {"ro", "ns", "imod"},
		"C13": {"struct", "attrs", "ns", "errs"},
		"C17": {"find"},
		"":    {"struct", "attrs", "ns", "ro", "imod", "errs", "heap", "find"},
	}[prop] {
		f[k] = true
	}
	return f
}

func judge(c *Case) *core.Verdict {
	v := &core.Verdict{OK: true, Class: classOf(c), NT: true}
	foc := focusOf(c.Prop)
	names := c.Prog.names()
	text := c.Prog.text()
	fail := func(sig, f string, a ...any) *core.Verdict {
		v.OK, v.Sig, v.Detail = false, sig, fmt.Sprintf(f, a...)+"\n"+text
		return v
	}
	if c.Prop == "C07" && c.Late {
		// executed (crash monitor) but not compared: the statement leaves implicit cases as augment targets out
		Load(&c.Prog, names)
		v.Out = true
		return v
	}
	ms, errs, perr := Load(&c.Prog, names)
	if perr != nil {
		if !c.Errs {
			return fail("parse-error", "the rendered program does not load: %v", perr)
		}
		return v
	}
	clean := len(errs) == 0
	if foc["errs"] {
		if c.Errs && clean {
			// the specification reports an error; is it at least recorded somewhere in the trees?
			hidden := 0
			for _, n := range names {
				if m := ms.Modules[n]; m != nil {
					hidden += len(yang.ToEntry(m).GetErrors())
				}
			}
			sig := "clean-but-specification-reports-error"
			if hidden > 0 {
				sig = "clean-but-error-hidden-on-an-entry"
			}
			return fail(sig, "the specification reports an error, Process returned none (%d recorded on entries)", hidden)
		}
		if !c.Errs && !clean {
			return fail("error-but-specification-clean", "the specification reports no error, Process returned %v", errs)
		}
	}
	if !clean || c.Errs {
		v.NT = false // an error outcome, agreed on: the trees are not compared
		return v
	}
	// the real trees, flattened
	obs := map[string]map[string]*Observed{}
	for _, n := range names {
		if m := ms.Modules[n]; m != nil {
			obs[n] = Flatten(yang.ToEntry(m))
		}
	}
	for _, n := range names {
		want := c.Flat[n]
		if c.Prog.Mods[n].Kind != "module" {
			continue
		}
		got := obs[n]
		wantPaths := map[string]Fact{}
		for _, f := range want {
			wantPaths[strings.Join(f.P, "/")] = f
		}
		if foc["struct"] {
			var diff []string
			for p, f := range wantPaths {
				if g, ok := got[p]; !ok {
					diff = append(diff, "-"+p+"("+f.Kind+")")
				} else if g.Kind != f.Kind {
					diff = append(diff, "~"+p+"(spec "+f.Kind+", library "+g.Kind+")")
				}
			}
			for p, g := range got {
				if _, ok := wantPaths[p]; !ok {
					diff = append(diff, "+"+p+"("+g.Kind+")")
				}
			}
			if len(diff) > 0 {
				sort.Strings(diff)
				return fail("tree-differs", "module %s: %s", n, strings.Join(diff, " "))
			}
		}
		if c.Prop == "C12" {
			// a node nobody's text placed there has no module to be attributed to (it can be walked to in this tree, it
			// reports the namespace and the read-only state of wherever it really hangs)
			var extra []string
			for p, g := range got {
				if _, ok := wantPaths[p]; !ok {
					extra = append(extra, fmt.Sprintf("%s (%s, ReadOnly %v, namespace %q)", p, g.Kind, g.Ro, g.Ns))
				}
			}
			if len(extra) > 0 {
				sort.Strings(extra)
				return fail("node-nobody-placed", "module %s holds nodes that no statement of any module places there: %s", n, strings.Join(extra, "; "))
			}
		}
		for p, f := range wantPaths {
			g, ok := got[p]
			if !ok {
				continue
			}
			if foc["ns"] && g.Ns != f.Ns {
				return fail("namespace-differs", "module %s path %s: specification %q, library %q", n, p, f.Ns, g.Ns)
			}
			if foc["imod"] && !f.Implicit {
				if want := strings.TrimPrefix(f.Ns, "urn:"); g.Imod != want {
					return fail("instantiating-module-differs", "module %s path %s: specification %q, library %q", n, p, want, g.Imod)
				}
			}
			if foc["ro"] && !f.Opcfg && g.Ro != f.Ro {
				return fail("readonly-differs", "module %s path %s: specification %v, library %v", n, p, f.Ro, g.Ro)
			}
			if foc["attrs"] && !f.Implicit {
				gd, fd := strings.Join(g.Dflt, "|"), strings.Join(f.Dflt, "|")
				switch {
				case g.Cfg != f.Cfg:
					return fail("config-differs", "module %s path %s: specification %s, library %s", n, p, f.Cfg, g.Cfg)
				case g.Mand != f.Mand:
					return fail("mandatory-differs", "module %s path %s: specification %s, library %s", n, p, f.Mand, g.Mand)
				case gd != fd:
					return fail("default-differs", "module %s path %s: specification %q, library %q", n, p, fd, gd)
				case g.La != f.La:
					return fail("list-attributes-differ", "module %s path %s: specification %+v, library %+v", n, p, f.La, g.La)
				case g.Units != f.Units:
					return fail("units-differ", "module %s path %s: specification %q, library %q", n, p, f.Units, g.Units)
				case g.Type != f.Type:
					return fail("type-differs", "module %s path %s: specification %q, library %q", n, p, f.Type, g.Type)
				case g.Idb != f.Idb:
					return fail("identity-base-differs", "module %s path %s: the identityref's base denotes an identity of module %q, the specification says %q (the module whose text holds the type statement)", n, p, g.Idb, f.Idb)
				case strings.Join(g.Dv, "|") != strings.Join(f.Dv, "|"):
					return fail("default-values-differ", "module %s path %s: DefaultValues(): specification %q, library %q", n, p, f.Dv, g.Dv)
				case strings.Join(g.Iff, "|") != strings.Join(f.Iff, "|"):
					return fail("constraints-differ", "module %s path %s: if-feature: specification %q, library %q", n, p, f.Iff, g.Iff)
				}
			}
		}
	}
	if c.Prop == "C12" && !strings.Contains(text, "augment ") && !strings.Contains(text, "deviation ") {
		// the same answers without Process: trees built directly by ToEntry after the groupings' own entries were
		// built and inspected first (ReadOnly is a function of the instantiated path, not of what was asked before)
		ms3 := yang.NewModules()
		ok := true
		for _, n := range names {
			if err := ms3.Parse(RenderModule(c.Prog.Mods[n]), n+".yang"); err != nil {
				ok = false
			}
		}
		if ok {
			var touch func(e *yang.Entry, d int)
			touch = func(e *yang.Entry, d int) {
				if e == nil || d > 12 {
					return
				}
				e.ReadOnly()
				for _, k := range e.Dir {
					touch(k, d+1)
				}
				if e.RPC != nil {
					touch(e.RPC.Input, d+1)
					touch(e.RPC.Output, d+1)
				}
			}
			var groupings func(n yang.Node, d int)
			groupings = func(n yang.Node, d int) {
				if gs, ok := n.(interface{ Groupings() []*yang.Grouping }); ok && d < 8 {
					for _, g := range gs.Groupings() {
						touch(yang.ToEntry(g), 0)
					}
				}
			}
			for _, mm := range []map[string]*yang.Module{ms3.Modules, ms3.SubModules} {
				for _, m := range mm {
					for _, g := range m.Grouping {
						touch(yang.ToEntry(g), 0)
					}
					groupings(m, 0)
				}
			}
			for _, n := range names {
				m := ms3.Modules[n]
				if m == nil || c.Prog.Mods[n].Kind != "module" {
					continue
				}
				root := yang.ToEntry(m)
				for _, f := range c.Flat[n] {
					e := root
					for _, step := range f.P {
						if e == nil {
							break
						}
						nx := e.Dir[step]
						if nx == nil && e.RPC != nil {
							switch step {
							case "input":
								nx = e.RPC.Input
							case "output":
								nx = e.RPC.Output
							}
						}
						e = nx
					}
					if e == nil || f.Opcfg || f.Implicit {
						continue // (implicit cases exist only after Process)
					}
					if got := e.ReadOnly(); got != f.Ro {
						return fail("readonly-differs-without-process", "module %s path %s: built by ToEntry without Process, after the groupings' own entries were inspected: specification %v, library %v", n, strings.Join(f.P, "/"), f.Ro, got)
					}
				}
			}
		}
	}
	// what of a node the property at hand speaks about (C12: who placed it and whether it is read-only)
	same := func(a, b *Observed) bool {
		if c.Prop == "C12" {
			return a.Ro == b.Ro && a.Ns == b.Ns && a.Imod == b.Imod && a.Kind == b.Kind
		}
		return fmt.Sprintf("%+v|%s", a.Fact, a.Imod) == fmt.Sprintf("%+v|%s", b.Fact, b.Imod)
	}
	if (c.Prop == "C06" || c.Prop == "C12") && len(errs) == 0 {
		// later uses: a second run over the same set instantiates every grouping again, with the same result
		if errs2 := ms.Process(); len(errs2) > 0 {
			return fail("second-run-differs", "a second Process of the same set reports %v", errs2)
		}
		for _, n := range names {
			if m := ms.Modules[n]; m != nil {
				o2 := Flatten(yang.ToEntry(m))
				for p, a := range obs[n] {
					if b, ok := o2[p]; !ok || !same(a, b) {
						return fail("second-run-differs", "module %s path %s: first run %+v, second run %+v (present: %v)", n, p, a.Fact, func() any {
							if ok {
								return b.Fact
							}
							return nil
						}(), ok)
					}
				}
			}
		}
		// the copies do not depend on whether the uses statements are also recorded (ParseOptions.StoreUses)
		ms2 := yang.NewModules()
		ms2.ParseOptions.StoreUses = true
		ms2.ParseOptions.DeviateOptions.IgnoreDeviateNotSupported = c.Prog.IgnoreNS
		ok := true
		for _, n := range names {
			if err := ms2.Parse(RenderModule(c.Prog.Mods[n]), n+".yang"); err != nil {
				ok = false
			}
		}
		if ok {
			if errs2 := ms2.Process(); len(errs2) > 0 {
				return fail("option-changes-outcome", "with ParseOptions.StoreUses the same modules give errors: %v", errs2)
			}
			for _, n := range names {
				if m := ms2.Modules[n]; m != nil {
					o2 := Flatten(yang.ToEntry(m))
					for p, a := range obs[n] {
						b, ok := o2[p]
						if !ok {
							return fail("option-changes-outcome", "module %s path %s exists by default and is missing with ParseOptions.StoreUses", n, p)
						}
						if !same(a, b) {
							return fail("option-changes-outcome", "module %s path %s: by default %+v, with ParseOptions.StoreUses %+v", n, p, a.Fact, b.Fact)
						}
					}
					if len(o2) != len(obs[n]) {
						return fail("option-changes-outcome", "module %s has %d nodes by default and %d with ParseOptions.StoreUses", n, len(obs[n]), len(o2))
					}
				}
			}
		}
	}
	if foc["frame"] {
		if r := frameCheck(c, obs); r != "" {
			return fail("untargeted-node-changed", "%s", r)
		}
	}
	if foc["heap"] {
		roots, entries, _ := Heap(ms, names)
		ev, _ := json.Marshal(map[string]any{"ev": "heap", "roots": roots, "entries": entries, "errs": len(errs)})
		v.Events = append(v.Events, ev)
	}
	if foc["find"] {
		if r := findChecks(c, ms, obs); r != "" {
			parts := strings.SplitN(r, "\x00", 2)
			return fail(parts[0], "%s", parts[1])
		}
	}
	if len(c.Prog.Mods) == 3 && strings.Contains(text, "augment \"/a:c/b:x\"") {
		v.Sample = map[string]any{"program": text, "expected_error": c.Errs}
	}
	return v
}

// findChecks: for every path the specification says exists in a module tree: Find of
// the absolute prefixed path must return an entry of the right kind at that path, and
// the same entry whatever the start: the root of the module, the root of every
// importing module (under that module's prefix for it), and nodes anywhere in any tree
// - in particular nodes grafted by another module, from which a prefix means what the
// module that WROTE the start node imports under it.  Relative ../ paths between nodes
// up to depth 3 must return the destination, and a path with an absent step nothing.
func findChecks(c *Case, ms *yang.Modules, obs map[string]map[string]*Observed) string {
	names := c.Prog.names()
	nsToMod := map[string]string{}
	for _, n := range names {
		if c.Prog.Mods[n].Kind == "module" {
			nsToMod[c.Prog.Mods[n].Ns] = n
		}
	}
	// the prefix module w uses for module tm ("" = cannot name it)
	prefixFor := func(w, tm string) string {
		m := c.Prog.Mods[w]
		if w == tm || (m.Kind == "submodule" && m.Belongs == tm) {
			return m.Pfx
		}
		var ps []string
		for p, t := range m.Imports {
			if t == tm {
				ps = append(ps, p)
			}
		}
		sort.Strings(ps)
		if len(ps) > 0 {
			return ps[0]
		}
		return ""
	}
	type start struct {
		what   string
		e      *yang.Entry
		writer string
	}
	var starts []start
	for _, n := range names {
		if c.Prog.Mods[n].Kind != "module" {
			continue
		}
		starts = append(starts, start{n + ":root", yang.ToEntry(ms.Modules[n]), n})
		var ks []string
		for k := range obs[n] {
			ks = append(ks, k)
		}
		sort.Strings(ks)
		deep, grafted, io := 0, 0, 0
		for _, k := range ks {
			o := obs[n][k]
			// prefixes in a path mean what they mean in the (sub)module whose text
			// holds the start node's statement (for a copy of a grouping's node:
			// where the grouping is written)
			w := ""
			if o.Entry.Node != nil {
				if rm := yang.RootNode(o.Entry.Node); rm != nil {
					w = rm.Name
				}
			}
			if _, ok := c.Prog.Mods[w]; !ok || o.Implicit {
				continue
			}
			inIO := strings.Contains("/"+k+"/", "/input/") || strings.Contains("/"+k+"/", "/output/")
			if w != n && grafted < 3 { // written by another module
				grafted++
				starts = append(starts, start{n + ":/" + k + " (written in " + w + ")", o.Entry, w})
			} else if w == n && len(o.P) >= 2 && deep < 1 {
				deep++
				starts = append(starts, start{n + ":/" + k, o.Entry, w})
			} else if inIO && io < 2 { // inside rpc / action input or output
				io++
				starts = append(starts, start{n + ":/" + k + " (written in " + w + ")", o.Entry, w})
			}
		}
	}
	// a submodule has an entry tree of its own (ToEntry of the submodule: what its text alone defines); a lookup
	// that starts there, under the belongs-to prefix or an import of the submodule, lands in the MODULE's tree
	for _, n := range names {
		if c.Prog.Mods[n].Kind == "submodule" && ms.SubModules[n] != nil {
			if se := yang.ToEntry(ms.SubModules[n]); se != nil {
				starts = append(starts, start{n + ":root (the submodule's own tree)", se, n})
			}
		}
	}
	// the input / output of an rpc or action that has neither statement is a node too
	for _, n := range names {
		if c.Prog.Mods[n].Kind != "module" {
			continue
		}
		k := 0
		for _, key := range sortedObs(obs[n]) {
			o := obs[n][key]
			if (o.Kind == "rpc" || o.Kind == "action") && k < 2 && o.Entry.Node != nil && o.Entry.RPC != nil && o.Entry.RPC.Input == nil {
				if rm := yang.RootNode(o.Entry.Node); rm != nil && c.Prog.Mods[rm.Name].Name != "" {
					if in := o.Entry.Find("input"); in != nil {
						k++
						starts = append(starts, start{n + ":/" + key + "/input (unwritten)", in, rm.Name})
					}
				}
			}
		}
	}
	for _, tm := range names {
		if c.Prog.Mods[tm].Kind != "module" {
			continue
		}
		nodes := obs[tm]
		// a node that can be walked to (and hence looked up) where the specification has none: its last step names no child
		specPaths := map[string]bool{}
		for _, f := range c.Flat[tm] {
			specPaths[strings.Join(f.P, "/")] = true
		}
		for _, key := range sortedObs(nodes) {
			if !specPaths[key] {
				o := nodes[key]
				abs := "/" + c.Prog.Mods[tm].Pfx + ":" + strings.Join(o.P, "/"+c.Prog.Mods[tm].Pfx+":")
				if g := yang.ToEntry(ms.Modules[tm]).Find(abs); g != nil {
					return fmt.Sprintf("absent-step-found\x00Find(%q) from the root of %s returns %s; the schema has no node there (the last step names no child of what the path reaches)", abs, tm, desc(g))
				}
			}
		}
		for _, f := range c.Flat[tm] {
			p := strings.Join(f.P, "/")
			var found *yang.Entry
			for _, st := range starts {
				pfx := prefixFor(st.writer, tm)
				if pfx == "" {
					continue
				}
				abs := "/" + pfx + ":" + strings.ReplaceAll(p, "/", "/"+pfx+":")
				g := st.e.Find(abs)
				if g == nil {
					return fmt.Sprintf("existing-node-not-found\x00Find(%q) from %s returns nothing, the specification has a %s there", abs, st.what, f.Kind)
				}
				if k := kindOf(g); k != f.Kind {
					return fmt.Sprintf("wrong-node-found\x00Find(%q) from %s returns %s, the specification has a %s there", abs, st.what, desc(g), f.Kind)
				}
				if found != nil && g != found {
					return fmt.Sprintf("lookup-depends-on-start\x00Find(%q) from %s returns %s, from another start it returns %s", abs, st.what, desc(g), desc(found))
				}
				found = g
				if o := nodes[p]; o != nil && o.Entry != g {
					return fmt.Sprintf("absolute-lookup\x00Find(%q) from %s returns %s, the node at that path is %s", abs, st.what, desc(g), desc(o.Entry))
				}
				miss := abs + "/" + pfx + ":nosuchnode"
				if g := st.e.Find(miss); g != nil {
					return fmt.Sprintf("absent-step-found\x00Find(%q) from %s returns %s, the path names no node", miss, st.what, desc(g))
				}
				if len(f.P) >= 1 {
					sub := "/" + pfx + ":" + strings.Join(append(append([]string{}, f.P[:len(f.P)-1]...), "nosuchnode"), "/"+pfx+":") + "/" + pfx + ":" + f.P[len(f.P)-1]
					if g := st.e.Find(sub); g != nil {
						return fmt.Sprintf("absent-step-found\x00Find(%q) from %s returns %s, the path names no node", sub, st.what, desc(g))
					}
					// an absent step followed by a step back up: the path still names no node (a step is looked up in the
					// tree, the path is not simplified as a string first)
					upAgain := "/" + pfx + ":" + strings.Join(append(append([]string{}, f.P[:len(f.P)-1]...), "nosuchnode/.."), "/"+pfx+":") + "/" + pfx + ":" + f.P[len(f.P)-1]
					if g := st.e.Find(upAgain); g != nil {
						return fmt.Sprintf("absent-step-found\x00Find(%q) from %s returns %s, the path has a step that names no node", upAgain, st.what, desc(g))
					}
					if f.Kind == "leaf" || f.Kind == "leaf-list" {
						// below a leaf there is nothing to step into, and so nothing to come back from
						through := abs + "/" + pfx + ":x/.."
						if g := st.e.Find(through); g != nil {
							return fmt.Sprintf("absent-step-found\x00Find(%q) from %s returns %s, the path steps below a leaf", through, st.what, desc(g))
						}
					}
				}
			}
		}
		// relative: from every node of the same tree up to the root and down again
		for q, from := range nodes {
			for p, want := range nodes {
				fromIO := strings.Contains("/"+q+"/", "/input/") || strings.Contains("/"+q+"/", "/output/")
				if (len(from.P) > 3 && !(fromIO && len(from.P) <= 6)) || len(want.P) > 3 {
					continue
				}
				rel := strings.Repeat("../", len(from.P)) + p
				if g := from.Entry.Find(rel); g != want.Entry {
					return fmt.Sprintf("relative-lookup\x00Find(%q) from %s returns %s, the destination is %s", rel, q, desc(g), desc(want.Entry))
				}
				if len(from.P) >= 1 {
					bad := strings.Repeat("../", len(from.P)) + "nosuchnode/../" + p
					if g := from.Entry.Find(bad); g != nil {
						return fmt.Sprintf("absent-step-found\x00Find(%q) from %s returns %s, the path has a step that names no node", bad, q, desc(g))
					}
				}
			}
		}
	}
	return ""
}

func sortedObs(m map[string]*Observed) []string {
	var ks []string
	for k := range m {
		ks = append(ks, k)
	}
	sort.Strings(ks)
	return ks
}

func desc(e *yang.Entry) string {
	if e == nil {
		return "nothing"
	}
	return fmt.Sprintf("%s %q at %s", kindOf(e), e.Name, e.Path())
}

// ---- checks -------------------------------------------------------------------------

func designRun(r *core.Run, prop string, cfgs []string, col *core.Collector) {
	if os.Getenv("VERIF_BONLY") != "" {
		return
	}
	core.CaseSuffix = `,"prop":"` + prop + `"}`
	for _, cfg := range cfgs {
		r.DirectionAC("schema", core.TLCOpts{Module: "MCS_" + cfg, Cfg: "MCS_" + cfg + ".cfg", Workers: 12, HeapGB: 16, Timeout: 0}, nil, col)
	}
	core.CaseSuffix = ""
}

func init() {
	core.Checks["C07"] = func(r *core.Run) {
		r.Rule = "A: every program of the augment space (base module with container, list, choice/case with a shorthand member, uses copies, rpc with and without written input/output, notification; augmenting modules b and c with one augment each, targets drawn from base paths, paths another augment creates (chains), an absent path and a leaf, payloads leaf / container with config false / uses of the augmenter's grouping / two siblings / a name that collides), explored by TLC through every order of the augment loop's work list; every distinct outcome replayed: Process error presence, every path, kind and Namespace() compared. Non-trivial = every case (each has two augments)."
		r.Exhaustive = true
		r.Assumptions = []string{"implicit-case namespace, a wrong prefix on a non-first step and uses-augment are outside the claim", "the real map iteration order is whatever the Go runtime picks in the run (orders are exhaustive in the model only)"}
		cfgs := tierCfgs(r, []string{"aug_quick", "aug_late", "aug_pair", "aug_sub_quick", "split", "aug_dev"}, []string{"aug_sub", "aug_two"})
		designRun(r, "C07", cfgs, nil)
		directionB(r, "C07", false)
		RegistryReg(r) // several revisions of the augmented module: the augment lands in the tree of the one the import denotes
		// however the set was arrived at (a second run, GetModule, after ClearEntryCache): the augments are there
		SessionHistories(r, "C07", "dvok", "a3")
	}
}

// directionB: random programs judged by SchemaProgTrace (and their heaps by SchemaTrace when heap is set).
func directionB(r *core.Run, prop string, heap bool) {
	n := 60
	if r.Tier == "thorough" {
		n = 800
	}
	if v, err := strconv.Atoi(os.Getenv("VERIF_BN")); err == nil && v > 0 {
		n = v // development: a larger sample
	}
	if os.Getenv("VERIF_BONLY") != "" {
		r.Infra("development run: direction B only")
	}
	col := core.NewCollector()
	core.SubmitCollect(r, "schema", 'B', n, col)
	if col.Len() == 0 {
		return
	}
	r.ValidateTrace("schema", col, core.TLCOpts{Module: "SchemaProgTrace", Cfg: "SchemaProgTrace_" + prop + ".cfg", Timeout: 0, HeapGB: 8})
	if heap {
		r.ValidateTrace("schema", col, core.TLCOpts{Module: "SchemaTrace", Cfg: "SchemaTrace.cfg", Timeout: 0, HeapGB: 8})
	}
}

func tierCfgs(r *core.Run, quick, thorough []string) []string {
	if r.Tier == "thorough" {
		return append(append([]string{}, quick...), thorough...)
	}
	return quick
}

func init() {
	core.Checks["C04"] = func(r *core.Run) {
		r.Rule = "A: the augment space (with late problems: two augmenters adding the same child, payload colliding with an existing child, childless and absent targets, shorthand choice members inside rpc input) and the uses space; for every outcome, Process error presence is compared with the specification, and for every clean outcome the real pointer graph (every Entry reachable through Dir and RPC.Input/Output from every module and submodule root, with object identity) is dumped and judged by SchemaTrace.tla: child filed under its own name, parent links (rpc input/output included), exactly one referrer per object, kind / child map / list attributes / type consistency, every child of a choice a case, no augment left, no recorded error. Non-trivial = every case."
		r.Exhaustive = true
		r.Assumptions = []string{"error texts are not compared, only presence", "bounded program spaces"}
		col := core.NewCollector()
		designRun(r, "C04", tierCfgs(r, []string{"aug_quick", "aug_late", "uses_quick", "aug_pair", "aug_sub_quick", "cfg", "dev3", "aug_dev"}, []string{"aug_sub", "aug_two", "uses", "split", "dev2"}), col)
		RegistryHeaps(r, col) // several revisions of one module in the set: every tree is swept, fixed and augmented
		r.ValidateTrace("schema", col, core.TLCOpts{Module: "SchemaTrace", Cfg: "SchemaTrace.cfg", Timeout: 0, HeapGB: 8})
		directionB(r, "C04", true)
		// however the run is asked for (Process, GetModule, after ClearEntryCache): clean means clean, and the trees are those of a fresh set
		SessionHistories(r, "C04", "dvok")
	}
	core.Checks["C12"] = func(r *core.Run) {
		r.Rule = "A: the config space (config unset/true/false at three depths; the second and third level placed by plain nesting, uses, a shorthand choice member or case, or an augment from another module; the whole tree in the module or in a submodule; the same under rpc input, rpc output and notification without config statements) and the augment space; for every node of every clean outcome ReadOnly(), Namespace() and InstantiatingModule() are compared with the specification's reading of who wrote which statement. Non-trivial = every case."
		r.Exhaustive = true
		r.Assumptions = []string{"config statements inside rpc / action / notification are outside the claim", "the namespace of an implicit case itself is not compared"}
		designRun(r, "C12", tierCfgs(r, []string{"cfg", "aug_quick", "aug_late", "uses_quick", "aug_sub_quick"}, []string{"aug_sub", "uses"}), nil)
		directionB(r, "C12", false)
		SessionHistories(r, "C12", "dv", "tgt2")
		RegistryReg(r) // several revisions of one module in the set: attribution still names the module whose text placed the node
	}
	core.Checks["C06"] = func(r *core.Run) {
		r.Rule = "A: the uses space: a grouping g1 of four shapes (container with default leaf and nested uses; list with min-elements and a leaf-list with defaults; config-false container with choice/case and shorthand member; container with an inner grouping shadowing the outer g2) defined in the imported module, in its submodule or in the using module, used at two sites (container, list, rpc input, notification, through another grouping, inside a case), names inside it (g2) shadowed by a same-named grouping of the user; with one later mutation of the first instance (augment, deviate not-supported, deviate add config) from a third module; every path, kind, attribute and Namespace() of every instance compared with the inlined-copy semantics of Schema.tla. Non-trivial = every case."
		r.Exhaustive = true
		r.Assumptions = []string{"refine and uses-augment are outside the claim", "a submodule referring to its owner's groupings is not generated (RFC 6020 and 7950 differ)"}
		col := core.NewCollector()
		designRun(r, "C06", tierCfgs(r, []string{"uses_quick"}, []string{"uses"}), col)
		r.ValidateTrace("schema", col, core.TLCOpts{Module: "SchemaTrace", Cfg: "SchemaTrace.cfg", Timeout: 0, HeapGB: 8})
		directionB(r, "C06", true)
		// which grouping a uses names may change between two runs over one set (a newer revision of its module arrives)
		SessionHistories(r, "C06", "ib")
		// type names inside a grouping resolve in the scope where the grouping is defined: random scope structures
		// (groupings and their siblings with same-named typedefs of their own), judged by TypesTrace / TypesG
		TypeScopes(r)
	}
	core.Checks["C17"] = func(r *core.Run) {
		r.Rule = "A: on every clean outcome of the augment space (and the uses / config spaces in the thorough tier): for every node of every module tree, Find of its absolute prefixed path from the module's own root, from the root of every importing module (with that module's prefix) and from a deep node of each, compared by pointer identity; the relative ../ path between every pair of nodes up to depth 3; and every absolute path with an absent step appended or substituted must return nothing. Non-trivial = every case."
		r.Exhaustive = true
		r.Assumptions = []string{"starts at rpc input/output that Find creates on demand are covered by C04"}
		designRun(r, "C17", tierCfgs(r, []string{"aug_quick", "aug_late", "uses_quick", "aug_pair", "split"}, []string{"uses", "cfg", "aug_sub"}), nil)
		directionB(r, "C17", false)
		RegistryReg(r) // several revisions of one module: a prefix reaches the tree of the module the import denotes
		// ... also when the newer revision arrives after a run (lookups under every import prefix are part of what is compared)
		SessionHistories(r, "C17", "ib")
	}
}

// frameCheck: the same modules without the deviating modules, processed by the
// real library; every node that no deviation targets must be identical.
func frameCheck(c *Case, obs map[string]map[string]*Observed) string {
	var targets [][]string // module, path...
	base := Prog{Mods: map[string]Module{}, IgnoreNS: c.Prog.IgnoreNS}
	for n, m := range c.Prog.Mods {
		dev := false
		for _, s := range m.Body {
			if s.Kw == "deviation" {
				dev = true
				var qs []QN
				json.Unmarshal(s.Arg, &qs)
				tm := n
				if len(qs) > 0 {
					if t, ok := m.Imports[qs[0].P]; ok {
						tm = t
					}
				}
				t := []string{tm}
				for _, q := range qs {
					t = append(t, q.N)
				}
				targets = append(targets, t)
			}
		}
		if !dev {
			base.Mods[n] = m
		}
	}
	if len(targets) == 0 {
		return ""
	}
	ms, errs, perr := Load(&base, base.names())
	if perr != nil || len(errs) > 0 {
		return ""
	}
	targeted := func(mod string, p []string) bool {
		for _, t := range targets {
			if t[0] != mod || len(t)-1 > len(p) {
				continue
			}
			same := true
			for i := 1; i < len(t); i++ {
				if p[i-1] != t[i] {
					same = false
				}
			}
			if same {
				return true
			}
		}
		return false
	}
	for _, n := range base.names() {
		if m := ms.Modules[n]; m != nil {
			before := Flatten(yang.ToEntry(m))
			after := obs[n]
			for p, b := range before {
				if targeted(n, b.P) {
					continue
				}
				a, ok := after[p]
				if !ok {
					return fmt.Sprintf("module %s path %s exists without the deviating modules and is gone with them", n, p)
				}
				af, bf := a.Fact, b.Fact
				if fmt.Sprintf("%+v|%s", af, a.Imod) != fmt.Sprintf("%+v|%s", bf, b.Imod) {
					return fmt.Sprintf("module %s path %s: without the deviating modules %+v, with them %+v", n, p, bf, af)
				}
			}
			for p, a := range after {
				if _, ok := before[p]; !ok && !targeted(n, a.P) {
					return fmt.Sprintf("module %s path %s appears only with the deviating modules", n, p)
				}
			}
		}
	}
	return ""
}

func init() {
	core.Checks["C08"] = func(r *core.Run) {
		r.Rule = "A: the deviation spaces: 10 targets (leaf with / without default, mandatory leaf, leaf-list with bounds, leaf-list with defaults, list with bounds, container, a leaf inside a uses copy, a leaf grafted by an augment of another module, an absent node) x 24 deviate statements (not-supported under both option settings, an unknown kind, add / replace / delete of config, default, mandatory, min/max-elements, units, type incl. an unresolvable type and a three-property replace) restricted to the combinations the statement pins down; every ordered pair of deviate statements in one deviation on four targets; two deviations in one module and in two modules; outcome per RFC 7950 7.20.3 in written order by Schema.tla, Frame invariant by TLC; every path, kind and attribute of the real trees compared, and the same modules are processed without the deviating modules to compare every untargeted node. Non-trivial = every case."
		r.Exhaustive = true
		r.Assumptions = []string{"must / unique deviations, delete default on a leaf-list, replace default where none exists, delete of an implicit element bound are outside the claim (DESIGN.md D.1)"}
		designRun(r, "C08", tierCfgs(r, []string{"dev1", "dev2", "dev3", "dev_triples"}, nil), nil)
		directionB(r, "C08", false)
		RegistryReg(r) // several revisions of the target module: a deviation lands in the one the import denotes
		SessionHistories(r, "C08", "dv", "dvok")
	}
}

// SessionHistories is set by the session family (which imports this package).
var SessionHistories = func(r *core.Run, prop string, texts ...string) {}

// C13Registry, RegistryReg and RegistryFs are set by the registry family.
var (
	C13Registry   = func(r *core.Run) {}
	RegistryReg   = func(r *core.Run) {}
	RegistryFs    = func(r *core.Run) {}
	RegistryHeaps = func(r *core.Run, col *core.Collector) {}
	C13Identities = func(r *core.Run) {}
	C05Types      = func(r *core.Run) {}
	C05Identities = func(r *core.Run) {}
	TypeScopes    = func(r *core.Run) {}
)

func init() {
	core.Checks["C13"] = func(r *core.Run) {
		r.Rule = "A1: every sequence of up to 4 (5) loads over 6 module texts (a without revision, with revision 1, 2, {1,2}; b without, with) through Modules.Parse: acceptance of each load, the module the bare name denotes, and the module an import of a without / with revision-date 1 / 2 binds to after Process; A2: every layout of candidate files (name.yang, name@date.yang for two or three dates, a longer-named module's files, name@bad.yang, name@date.txt) over the current directory and two search-path directories x Read(name) / Read(name@date): which file is opened (a marker in each file's description); A3: every partition of a module body (grouping, container using it, leaf with a typedef'd type, list, container) over the module and two submodules with flat and nested includes: the processed tree must equal the unsplit module's. Non-trivial = at least two loads / every layout / every partition. A4: the identities of submodules (directly included, nested, siblings) from the Identities space. B: recorded histories of up to 14 loads of module and submodule texts with queries in between, every load a step of Registry.tla (RegistryTrace.tla), and file choices in random layouts of 2-4 directories."
		r.Exhaustive = true
		r.Assumptions = []string{"a submodule's references to definitions in other parts go through its own includes or are placed in the module (RFC 6020 and 7950 agree there)"}
		C13Registry(r)
		designRun(r, "C13", tierCfgs(r, []string{"split"}, nil), nil)
		C13Identities(r)
		// an import without revision-date follows the latest revision loaded, also when it arrives after a run
		SessionHistories(r, "C13", "bb-r2")
	}
}
