package schema

import (
	"encoding/json"
	"fmt"
	"math/rand"
	"sort"
	"strings"

	"github.com/openconfig/goyang/pkg/yang"
	"verifharness/core"
)

// ---- direction B: random programs in the vocabulary of Schema.tla --------------

func js(v any) json.RawMessage { b, _ := json.Marshal(v); return b }

func st(kw string, arg any, kids ...Stmt) Stmt {
	if kids == nil {
		kids = []Stmt{}
	}
	return Stmt{Kw: kw, Arg: js(arg), Kids: kids}
}

type gctx struct {
	rng   *rand.Rand
	n     int      // name counter
	paths [][]QN   // absolute paths of nodes that can take children (best-effort prediction, for target selection only)
	leafs [][]QN   // paths of leaves / leaf-lists / lists (deviation targets)
	mod   string   // module being written
	gs    []string // groupings defined so far in this module
	ags   []string // groupings of module a (usable from b and c as a:<name>)
	ios   [][]QN   // paths of rpc / action input and output nodes (deviation: not-supported only)
	noaug [][]QN   // paths of nodes that cannot be augmented (anyxml, rpc, action)
}

func (g *gctx) iff(kids []Stmt) []Stmt {
	for i, n := 0, g.rng.Intn(8)-4; i < n; i++ { // now and then up to three if-feature statements
		kids = append(kids, st("if-feature", fmt.Sprintf("f%d", g.rng.Intn(6))))
	}
	return kids
}

func (g *gctx) name(p string) string { g.n++; return fmt.Sprintf("%s%d", p, g.n) }

func leafStmt(name string, extra ...Stmt) Stmt {
	return st("leaf", name, append([]Stmt{st("type", "string")}, extra...)...)
}

// body: random data statements; path is where they will sit (nil inside a grouping: no targets recorded).
func (g *gctx) body(depth int, path []QN, inChoice bool) []Stmt {
	inOp := false // inside an rpc, action or notification (no action may be written there)
	for _, q := range path {
		if q.N == "input" || q.N == "output" || (len(q.N) > 1 && q.N[0] == 'n' && q.N[1] >= '0' && q.N[1] <= '9') {
			inOp = true
		}
	}
	var out []Stmt
	k := 1 + g.rng.Intn(3)
	if depth == 0 {
		k = 2 + g.rng.Intn(3)
	}
	for i := 0; i < k; i++ {
		sub := func(n string) []QN {
			if path == nil {
				return nil
			}
			return append(append([]QN{}, path...), QN{g.mod, n})
		}
		rec := func(p []QN, dir bool) {
			if p == nil {
				return
			}
			if dir {
				g.paths = append(g.paths, p)
			} else {
				g.leafs = append(g.leafs, p)
			}
		}
		var cfg []Stmt
		if g.rng.Intn(5) == 0 {
			cfg = []Stmt{st("config", []string{"true", "false"}[g.rng.Intn(2)])}
		}
		switch r := g.rng.Intn(16); {
		case r == 12 && depth >= 1 && depth < 3 && !inOp && !inChoice: // an action, in a container / list / grouping
			n := g.name("act")
			var kids []Stmt
			var in, ou []QN
			if p := sub(n); p != nil {
				in = append(append([]QN{}, p...), QN{g.mod, "input"})
				ou = append(append([]QN{}, p...), QN{g.mod, "output"})
				rec(in, true)
				rec(ou, true)
				g.ios = append(g.ios, in, ou)
				g.noaug = append(g.noaug, p)
			}
			if g.rng.Intn(3) > 0 {
				kids = append(kids, st("input", "input", g.body(depth+2, in, false)...))
			}
			if g.rng.Intn(2) == 0 {
				okids := g.body(depth+2, ou, false)
				if g.rng.Intn(2) == 0 { // a choice with a shorthand member in an output (with or without an input next to it)
					okids = append(okids, st("choice", g.name("och"), leafStmt(g.name("osh"))))
				}
				kids = append(kids, st("output", "output", okids...))
			}
			out = append(out, st("action", n, kids...))
		case r == 13: // a container with nothing in it
			n := g.name("e")
			rec(sub(n), true)
			out = append(out, st("container", n, g.iff(nil)...))
		case r == 14 && depth <= 1:
			n := g.name("ax")
			if p := sub(n); p != nil && g.rng.Intn(2) == 0 {
				g.noaug = append(g.noaug, p)
			}
			out = append(out, st("anyxml", n))
		case r < 3 || depth >= 3 || r >= 12:
			n := g.name("l")
			var ex []Stmt
			if g.rng.Intn(3) == 0 {
				ex = append(ex, st("default", "d"+n))
			}
			out = append(out, leafStmt(n, append(ex, cfg...)...))
			rec(sub(n), false)
		case r < 5:
			n := g.name("c")
			p := sub(n)
			rec(p, true)
			out = append(out, st("container", n, g.iff(append(cfg, g.body(depth+1, p, false)...))...))
		case r == 5:
			n := g.name("li")
			p := sub(n)
			rec(p, true)
			kids := []Stmt{st("key", "k"), leafStmt("k")}
			if g.rng.Intn(2) == 0 {
				kids = append(kids, st("min-elements", 1+g.rng.Intn(3)), st("max-elements", 5+g.rng.Intn(3)))
			}
			out = append(out, st("list", n, append(kids, g.body(depth+1, p, false)...)...))
			rec(p, false)
		case r == 6:
			n := g.name("ll")
			kids := []Stmt{st("type", "string")}
			if g.rng.Intn(2) == 0 {
				kids = append(kids, st("default", "x"), st("default", "y"))
			} else if g.rng.Intn(2) == 0 {
				kids = append(kids, st("min-elements", 1+g.rng.Intn(2)), st("max-elements", 5+g.rng.Intn(3)))
			}
			out = append(out, st("leaf-list", n, kids...))
			rec(sub(n), false)
		case r == 7 && !inChoice:
			n := g.name("ch")
			p := sub(n)
			rec(p, true)
			cn := g.name("ca")
			var cp []QN
			if p != nil {
				cp = append(append([]QN{}, p...), QN{g.mod, cn})
				rec(cp, true)
			}
			sh := g.name("sh")
			ckids := []Stmt{st("case", cn, g.body(depth+2, cp, false)...), leafStmt(sh)}
			if g.rng.Intn(2) == 0 { // a shorthand container: its path goes through the implicit case of the same name
				shc := g.name("shc")
				ckids = append(ckids, st("container", shc))
				if p != nil {
					rec(append(append([]QN{}, p...), QN{g.mod, shc}, QN{g.mod, shc}), true)
				}
			}
			out = append(out, st("choice", n, ckids...))
		case r == 8 && depth == 0 && path != nil:
			n := g.name("r")
			p := sub(n)
			in := append(append([]QN{}, p...), QN{g.mod, "input"})
			ou := append(append([]QN{}, p...), QN{g.mod, "output"})
			rec(in, true)
			rec(ou, true)
			g.ios = append(g.ios, in, ou)
			g.noaug = append(g.noaug, p)
			var kids []Stmt
			if g.rng.Intn(3) > 0 {
				kids = append(kids, st("input", "input", g.body(depth+2, in, false)...))
			}
			if g.rng.Intn(2) == 0 {
				okids := g.body(depth+2, ou, false)
				if g.rng.Intn(2) == 0 {
					okids = append(okids, st("choice", g.name("och"), leafStmt(g.name("osh"))))
				}
				kids = append(kids, st("output", "output", okids...))
			}
			out = append(out, st("rpc", n, kids...))
		case r == 9 && depth == 0 && path != nil:
			n := g.name("n")
			p := sub(n)
			rec(p, true)
			out = append(out, st("notification", n, g.body(depth+2, p, false)...))
		case r >= 10 && r < 12 && len(g.gs)+len(g.ags) > 0:
			var u Stmt
			if k := g.rng.Intn(len(g.gs) + len(g.ags)); k < len(g.gs) {
				u = st("uses", QN{"", g.gs[k]})
			} else {
				u = st("uses", QN{"a", g.ags[k-len(g.gs)]}) // a grouping of module a, used by another module
			}
			if g.rng.Intn(3) == 0 {
				u.Kids = g.iff([]Stmt{st("if-feature", "fu")})
			}
			out = append(out, u)
		default:
			n := g.name("l")
			out = append(out, leafStmt(n))
			rec(sub(n), false)
		}
	}
	return out
}

func mkmod(name string, imports map[string]string, includes []string, body []Stmt) Module {
	if imports == nil {
		imports = map[string]string{}
	}
	if includes == nil {
		includes = []string{}
	}
	if body == nil {
		body = []Stmt{}
	}
	return Module{Name: name, Kind: "module", Pfx: name, Ns: "urn:" + name, Imports: imports, Includes: includes, Body: body}
}

// RandomProg builds a random program: base a (optionally with submodule as), augmenting modules b and c.
func RandomProg(rng *rand.Rand) *Prog {
	g := &gctx{rng: rng, mod: "a"}
	var abody []Stmt
	for i, n := 0, 1+rng.Intn(3); i < n; i++ { // groupings, later ones may use earlier ones
		gn := g.name("g")
		abody = append(abody, st("grouping", gn, g.body(1, nil, false)...))
		g.gs = append(g.gs, gn)
	}
	g.ags = append([]string{}, g.gs...)
	p := &Prog{Mods: map[string]Module{}}
	data := g.body(0, []QN{}, false)
	if rng.Intn(6) == 0 {
		// a chain of twenty nested containers (paths of more than twenty steps)
		deep := leafStmt("bottom")
		for k := 20; k >= 1; k-- {
			deep = st("container", fmt.Sprintf("deep%d", k), deep)
		}
		data = append(data, deep)
	}
	if rng.Intn(3) == 0 { // part of the tree written in a submodule
		k := 1 + rng.Intn(len(data))
		sub := Module{Name: "as", Kind: "submodule", Pfx: "a", Belongs: "a", Imports: map[string]string{}, Includes: []string{}, Body: data[k-1:]}
		// the submodule needs the groupings it uses: keep uses-free statements only
		var keep, back []Stmt
		for _, s := range sub.Body {
			if strings.Contains(string(js(s)), `"uses"`) {
				back = append(back, s)
			} else {
				keep = append(keep, s)
			}
		}
		if keep == nil {
			keep = []Stmt{}
		}
		// an augment written in the submodule with an absolute path without prefixes
		if len(g.paths) > 0 && rng.Intn(2) == 0 {
			t := g.paths[rng.Intn(len(g.paths))]
			un := make([]QN, len(t))
			for i, q := range t {
				un[i] = QN{"", q.N}
			}
			keep = append(keep, st("augment", un, leafStmt(g.name("ua"))))
		}
		sub.Body = keep
		p.Mods["as"] = sub
		p.Mods["a"] = mkmod("a", nil, []string{"as"}, append(append(abody, data[:k-1]...), back...))
	} else {
		p.Mods["a"] = mkmod("a", nil, nil, append(abody, data...))
	}
	// augmenting modules
	for _, who := range []string{"b", "c"} {
		g.mod = who
		g.gs = nil
		var body []Stmt
		imps := map[string]string{"a": "a"}
		if who == "c" {
			imps["b"] = "b"
		}
		if rng.Intn(2) == 0 {
			gn := g.name("g")
			body = append(body, st("grouping", gn, g.body(2, nil, false)...))
			g.gs = append(g.gs, gn)
		}
		var augs []Stmt
		for i, n := 0, rng.Intn(4); i < n && len(g.paths) > 0; i++ {
			t := g.paths[rng.Intn(len(g.paths))]
			if who == "b" {
				// b does not import c: avoid targets that c created
				bad := false
				for _, q := range t {
					if q.P == "c" {
						bad = true
					}
				}
				if bad {
					continue
				}
			}
			if rng.Intn(12) == 0 {
				t = append(append([]QN{}, t...), QN{"a", "nosuch"})
			} else if rng.Intn(15) == 0 && len(g.noaug) > 0 {
				t = g.noaug[rng.Intn(len(g.noaug))] // an anyxml node, an rpc or an action itself: not augmentable
			}
			pay := g.body(2, t, false)
			a := st("augment", t, pay...)
			if rng.Intn(4) == 0 {
				a.Kids = append(a.Kids, st("if-feature", "faug"))
			}
			augs = append(augs, a)
		}
		rng.Shuffle(len(augs), func(i, j int) { augs[i], augs[j] = augs[j], augs[i] }) // written in any order
		body = append(body, augs...)
		if who == "c" && rng.Intn(2) == 0 && len(g.leafs) > 0 {
			for i, n := 0, 1+rng.Intn(2); i < n; i++ {
				t := g.leafs[rng.Intn(len(g.leafs))]
				var dv Stmt
				switch rng.Intn(9) {
				case 5:
					dv = st("deviate", "replace", st("max-elements", 2+rng.Intn(3)))
				case 6:
					dv = st("deviate", "add", st("min-elements", 1))
				case 7:
					dv = st("deviate", "delete", st("max-elements", 5))
				case 8:
					if len(g.ios) > 0 {
						t = g.ios[rng.Intn(len(g.ios))] // the input or output of an rpc or action
					}
					dv = st("deviate", "not-supported")
				case 0:
					dv = st("deviate", "not-supported")
				case 1:
					dv = st("deviate", "add", st("config", "false"))
				case 2:
					dv = st("deviate", "replace", st("config", "true"))
				case 3:
					dv = st("deviate", "add", st("units", "u"))
				default:
					dv = st("deviate", "delete", st("config", "true"))
				}
				body = append(body, st("deviation", t, dv))
			}
		}
		p.Mods[who] = mkmod(who, imps, nil, body)
	}
	return p
}

func isImplicitCase(e *yang.Entry) bool {
	if e.Kind != yang.CaseEntry {
		return false
	}
	if c, ok := e.Node.(*yang.Case); ok && c.Source != nil {
		return c.Source.Keyword != "case"
	}
	return false
}

// gen is one direction-B execution: events "program" and "observed" (and the real heap for C04).
func gen(body []byte) *core.Verdict {
	var q struct {
		Seed int64
		Tid  int
	}
	json.Unmarshal(body, &q)
	rng := rand.New(rand.NewSource(q.Seed*2147483659 + int64(q.Tid)))
	p := RandomProg(rng)
	v := &core.Verdict{OK: true, Class: "generated", NT: true}
	names := p.names()
	ms, errs, perr := Load(p, names)
	if perr != nil {
		v.Out = true // the generator produced something the builder refuses (e.g. a duplicate name in one statement list): not a schema-level case
		return v
	}
	flat := map[string][]Fact{}
	if len(errs) == 0 {
		for _, n := range names {
			if m := ms.Modules[n]; m != nil {
				obs := Flatten(yang.ToEntry(m))
				fs := []Fact{}
				var ks []string
				for k := range obs {
					ks = append(ks, k)
				}
				sort.Strings(ks)
				for _, k := range ks {
					f := obs[k].Fact
					f.Implicit = isImplicitCase(obs[k].Entry)
					if f.Dflt == nil {
						f.Dflt = []string{}
					}
					if f.Iff == nil {
						f.Iff = []string{}
					}
					if f.Dv == nil {
						f.Dv = []string{}
					}
					fs = append(fs, f)
				}
				flat[n] = fs
			}
		}
	}
	// path lookups on the clean trees: the absolute prefixed path of observed nodes (and the same path with a
	// step that names nothing appended or put in the middle) from the root of every module that can name the prefix
	lookups := []map[string]any{}
	if len(errs) == 0 {
		imports := map[string][]string{"a": {"a"}, "b": {"a", "b"}, "c": {"a", "b", "c"}}
		for _, tm := range []string{"a", "b", "c"} {
			m := ms.Modules[tm]
			if m == nil {
				continue
			}
			obs := Flatten(yang.ToEntry(m))
			keys := sortedObs(obs)
			rng.Shuffle(len(keys), func(i, j int) { keys[i], keys[j] = keys[j], keys[i] })
			if len(keys) > 12 {
				// (the node with the longest path is always among those looked up)
				longest := 0
				for i, k := range keys {
					if len(obs[k].P) > len(obs[keys[longest]].P) {
						longest = i
					}
				}
				keys[0], keys[longest] = keys[longest], keys[0]
				keys = keys[:12]
			}
			for _, k := range keys {
				o := obs[k]
				for _, variant := range []string{"exact", "absent-last", "absent-middle"} {
					steps := append([]string{}, o.P...)
					switch variant {
					case "absent-last":
						steps = append(steps, "nosuchnode")
					case "absent-middle":
						if len(steps) < 2 {
							continue
						}
						steps = append(append(append([]string{}, steps[:len(steps)-1]...), "nosuchnode"), steps[len(steps)-1])
					}
					abs := "/" + tm + ":" + strings.Join(steps, "/"+tm+":")
					for _, from := range []string{"a", "b", "c"} {
						can := imports[from]
						ok := false
						for _, x := range can {
							ok = ok || x == tm
						}
						if !ok || ms.Modules[from] == nil {
							continue
						}
						got := yang.ToEntry(ms.Modules[from]).Find(abs)
						lookups = append(lookups, map[string]any{"mod": tm, "p": steps, "from": from, "found": got != nil, "same": got == o.Entry})
					}
				}
			}
		}
	}
	v.Events = append(v.Events,
		json.RawMessage(fmt.Sprintf(`{"ev":"reset","tid":%d}`, q.Tid)),
		js(map[string]any{"ev": "program", "prog": p}),
		js(map[string]any{"ev": "observed", "errs": len(errs) > 0, "flat": flat, "lookups": lookups}))
	if len(errs) == 0 {
		roots, entries, _ := Heap(ms, names)
		v.Events = append(v.Events, js(map[string]any{"ev": "heap", "roots": roots, "entries": entries, "errs": 0}))
	}
	if q.Tid <= 2 {
		v.Sample = map[string]any{"direction": "B", "program": p.text(), "process_errors": len(errs)}
	}
	return v
}
