package schema

import (
	"encoding/json"
	"fmt"
	"math/rand"
	"sort"
	"strings"

	"github.com/openconfig/goyang/pkg/yang"
	"verifharness/core"
)

// ---- direction B: random programs in the vocabulary of Schema.tla --------------

func js(v any) json.RawMessage { b, _ := json.Marshal(v); return b }

func st(kw string, arg any, kids ...Stmt) Stmt {
	if kids == nil {
		kids = []Stmt{}
	}
	return Stmt{Kw: kw, Arg: js(arg), Kids: kids}
}

type gctx struct {
	rng   *rand.Rand
	n     int      // name counter
	paths [][]QN   // absolute paths of nodes that can take children (best-effort prediction, for target selection only)
	leafs [][]QN   // paths of leaves / leaf-lists / lists (deviation targets)
	mod   string   // module being written
	gs    []string // groupings defined so far in this module
}

func (g *gctx) name(p string) string { g.n++; return fmt.Sprintf("%s%d", p, g.n) }

func leafStmt(name string, extra ...Stmt) Stmt {
	return st("leaf", name, append([]Stmt{st("type", "string")}, extra...)...)
}

// body: random data statements; path is where they will sit (nil inside a grouping: no targets recorded).
func (g *gctx) body(depth int, path []QN, inChoice bool) []Stmt {
	var out []Stmt
	k := 1 + g.rng.Intn(3)
	if depth == 0 {
		k = 2 + g.rng.Intn(3)
	}
	for i := 0; i < k; i++ {
		sub := func(n string) []QN {
			if path == nil {
				return nil
			}
			return append(append([]QN{}, path...), QN{g.mod, n})
		}
		rec := func(p []QN, dir bool) {
			if p == nil {
				return
			}
			if dir {
				g.paths = append(g.paths, p)
			} else {
				g.leafs = append(g.leafs, p)
			}
		}
		var cfg []Stmt
		if g.rng.Intn(5) == 0 {
			cfg = []Stmt{st("config", []string{"true", "false"}[g.rng.Intn(2)])}
		}
		switch r := g.rng.Intn(12); {
		case r < 3 || depth >= 3:
			n := g.name("l")
			var ex []Stmt
			if g.rng.Intn(3) == 0 {
				ex = append(ex, st("default", "d"+n))
			}
			out = append(out, leafStmt(n, append(ex, cfg...)...))
			rec(sub(n), false)
		case r < 5:
			n := g.name("c")
			p := sub(n)
			rec(p, true)
			out = append(out, st("container", n, append(cfg, g.body(depth+1, p, false)...)...))
		case r == 5:
			n := g.name("li")
			p := sub(n)
			rec(p, true)
			kids := []Stmt{st("key", "k"), leafStmt("k")}
			if g.rng.Intn(2) == 0 {
				kids = append(kids, st("min-elements", 1+g.rng.Intn(3)), st("max-elements", 5+g.rng.Intn(3)))
			}
			out = append(out, st("list", n, append(kids, g.body(depth+1, p, false)...)...))
			rec(p, false)
		case r == 6:
			n := g.name("ll")
			kids := []Stmt{st("type", "string")}
			if g.rng.Intn(2) == 0 {
				kids = append(kids, st("default", "x"), st("default", "y"))
			}
			out = append(out, st("leaf-list", n, kids...))
			rec(sub(n), false)
		case r == 7 && !inChoice:
			n := g.name("ch")
			p := sub(n)
			rec(p, true)
			cn := g.name("ca")
			var cp []QN
			if p != nil {
				cp = append(append([]QN{}, p...), QN{g.mod, cn})
				rec(cp, true)
			}
			sh := g.name("sh")
			out = append(out, st("choice", n, st("case", cn, g.body(depth+2, cp, false)...), leafStmt(sh)))
		case r == 8 && depth == 0 && path != nil:
			n := g.name("r")
			p := sub(n)
			in := append(append([]QN{}, p...), QN{g.mod, "input"})
			ou := append(append([]QN{}, p...), QN{g.mod, "output"})
			rec(in, true)
			rec(ou, true)
			var kids []Stmt
			if g.rng.Intn(3) > 0 {
				kids = append(kids, st("input", "input", g.body(depth+2, in, false)...))
			}
			if g.rng.Intn(2) == 0 {
				kids = append(kids, st("output", "output", g.body(depth+2, ou, false)...))
			}
			out = append(out, st("rpc", n, kids...))
		case r == 9 && depth == 0 && path != nil:
			n := g.name("n")
			p := sub(n)
			rec(p, true)
			out = append(out, st("notification", n, g.body(depth+2, p, false)...))
		case r >= 10 && len(g.gs) > 0:
			out = append(out, st("uses", QN{"", g.gs[g.rng.Intn(len(g.gs))]}))
		default:
			n := g.name("l")
			out = append(out, leafStmt(n))
			rec(sub(n), false)
		}
	}
	return out
}

func mkmod(name string, imports map[string]string, includes []string, body []Stmt) Module {
	if imports == nil {
		imports = map[string]string{}
	}
	if includes == nil {
		includes = []string{}
	}
	if body == nil {
		body = []Stmt{}
	}
	return Module{Name: name, Kind: "module", Pfx: name, Ns: "urn:" + name, Imports: imports, Includes: includes, Body: body}
}

// RandomProg builds a random program: base a (optionally with submodule as), augmenting modules b and c.
func RandomProg(rng *rand.Rand) *Prog {
	g := &gctx{rng: rng, mod: "a"}
	var abody []Stmt
	for i, n := 0, 1+rng.Intn(3); i < n; i++ { // groupings, later ones may use earlier ones
		gn := g.name("g")
		abody = append(abody, st("grouping", gn, g.body(1, nil, false)...))
		g.gs = append(g.gs, gn)
	}
	p := &Prog{Mods: map[string]Module{}}
	data := g.body(0, []QN{}, false)
	if rng.Intn(3) == 0 { // part of the tree written in a submodule
		k := 1 + rng.Intn(len(data))
		sub := Module{Name: "as", Kind: "submodule", Pfx: "a", Belongs: "a", Imports: map[string]string{}, Includes: []string{}, Body: data[k-1:]}
		// the submodule needs the groupings it uses: keep uses-free statements only
		var keep, back []Stmt
		for _, s := range sub.Body {
			if strings.Contains(string(js(s)), `"uses"`) {
				back = append(back, s)
			} else {
				keep = append(keep, s)
			}
		}
		if keep == nil {
			keep = []Stmt{}
		}
		sub.Body = keep
		p.Mods["as"] = sub
		p.Mods["a"] = mkmod("a", nil, []string{"as"}, append(append(abody, data[:k-1]...), back...))
	} else {
		p.Mods["a"] = mkmod("a", nil, nil, append(abody, data...))
	}
	// augmenting modules
	for _, who := range []string{"b", "c"} {
		g.mod = who
		g.gs = nil
		var body []Stmt
		imps := map[string]string{"a": "a"}
		if who == "c" {
			imps["b"] = "b"
		}
		if rng.Intn(2) == 0 {
			gn := g.name("g")
			body = append(body, st("grouping", gn, g.body(2, nil, false)...))
			g.gs = append(g.gs, gn)
		}
		var augs []Stmt
		for i, n := 0, rng.Intn(4); i < n && len(g.paths) > 0; i++ {
			t := g.paths[rng.Intn(len(g.paths))]
			if who == "b" {
				// b does not import c: avoid targets that c created
				bad := false
				for _, q := range t {
					if q.P == "c" {
						bad = true
					}
				}
				if bad {
					continue
				}
			}
			if rng.Intn(12) == 0 {
				t = append(append([]QN{}, t...), QN{"a", "nosuch"})
			}
			pay := g.body(2, t, false)
			augs = append(augs, st("augment", t, pay...))
		}
		rng.Shuffle(len(augs), func(i, j int) { augs[i], augs[j] = augs[j], augs[i] }) // written in any order
		body = append(body, augs...)
		if who == "c" && rng.Intn(2) == 0 && len(g.leafs) > 0 {
			for i, n := 0, 1+rng.Intn(2); i < n; i++ {
				t := g.leafs[rng.Intn(len(g.leafs))]
				var dv Stmt
				switch rng.Intn(5) {
				case 0:
					dv = st("deviate", "not-supported")
				case 1:
					dv = st("deviate", "add", st("config", "false"))
				case 2:
					dv = st("deviate", "replace", st("config", "true"))
				case 3:
					dv = st("deviate", "add", st("units", "u"))
				default:
					dv = st("deviate", "delete", st("config", "true"))
				}
				body = append(body, st("deviation", t, dv))
			}
		}
		p.Mods[who] = mkmod(who, imps, nil, body)
	}
	return p
}

func isImplicitCase(e *yang.Entry) bool {
	if e.Kind != yang.CaseEntry {
		return false
	}
	if c, ok := e.Node.(*yang.Case); ok && c.Source != nil {
		return c.Source.Keyword != "case"
	}
	return false
}

// gen is one direction-B execution: events "program" and "observed" (and the real heap for C04).
func gen(body []byte) *core.Verdict {
	var q struct {
		Seed int64
		Tid  int
	}
	json.Unmarshal(body, &q)
	rng := rand.New(rand.NewSource(q.Seed*2147483659 + int64(q.Tid)))
	p := RandomProg(rng)
	v := &core.Verdict{OK: true, Class: "generated", NT: true}
	names := p.names()
	ms, errs, perr := Load(p, names)
	if perr != nil {
		v.Out = true // the generator produced something the builder refuses (e.g. a duplicate name in one statement list): not a schema-level case
		return v
	}
	flat := map[string][]Fact{}
	if len(errs) == 0 {
		for _, n := range names {
			if m := ms.Modules[n]; m != nil {
				obs := Flatten(yang.ToEntry(m))
				fs := []Fact{}
				var ks []string
				for k := range obs {
					ks = append(ks, k)
				}
				sort.Strings(ks)
				for _, k := range ks {
					f := obs[k].Fact
					f.Implicit = isImplicitCase(obs[k].Entry)
					if f.Dflt == nil {
						f.Dflt = []string{}
					}
					if f.Iff == nil {
						f.Iff = []string{}
					}
					fs = append(fs, f)
				}
				flat[n] = fs
			}
		}
	}
	v.Events = append(v.Events,
		json.RawMessage(fmt.Sprintf(`{"ev":"reset","tid":%d}`, q.Tid)),
		js(map[string]any{"ev": "program", "prog": p}),
		js(map[string]any{"ev": "observed", "errs": len(errs) > 0, "flat": flat}))
	if len(errs) == 0 {
		roots, entries, _ := Heap(ms, names)
		v.Events = append(v.Events, js(map[string]any{"ev": "heap", "roots": roots, "entries": entries, "errs": 0}))
	}
	if q.Tid <= 2 {
		v.Sample = map[string]any{"direction": "B", "program": p.text(), "process_errors": len(errs)}
	}
	return v
}
