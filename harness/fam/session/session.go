// Package session binds Session.tla (C18) to one yang.Modules used over time.
package session

import (
	"encoding/json"
	"fmt"
	"math/rand"
	"os"
	"regexp"
	"sort"
	"strings"

	"github.com/openconfig/goyang/pkg/yang"
	"verifharness/core"
	"verifharness/fam/schema"
)

func init() {
	core.Register(&core.Family{Name: "session", Exec: exec, Classify: func(k byte, b []byte) string { return "history" }})
	core.Checks["C18"] = check
	schema.SessionHistories = Histories
}

// Texts is the catalogue behind the text ids of MCSession.
var Texts = map[string]string{
	"i1": `module i1 { namespace "urn:i1"; prefix i1;
  identity x; identity y { base x; } identity z { base y; } identity z4 { base z; } identity z5 { base z4; } identity z6 { base z5; }
  leaf r { type identityref { base x; } }
}`,
	"t2": `module t2 { namespace "urn:t2"; prefix t2;
  typedef tt { type string { pattern "a.*"; } units "u"; default "ab"; }
  grouping g { container gc { typedef inner { type tt; } leaf gl { type inner; } } }
  container c { uses g; leaf l { type tt; } choice ch { leaf sh { type int8 { range "1..5"; } } } }
  rpc r { input { leaf i { type tt; } } }
  leaf mm { type string { length "1..max"; } }
  leaf mn { type int8 { range "min..10"; } }
  leaf mu { type uint64 { range "5..max"; } }
}`,
	"t2b": `module t2 { namespace "urn:t2"; prefix t2;
  container c { leaf other { type string; } }
}`,
	"a3": `module a3 { namespace "urn:a3"; prefix a3; import t2 { prefix t; } import i1 { prefix i; }
  identity w { base i:x; }
  augment "/t:c" { leaf added { type t:tt; } }
  augment "/t:c/a3:added2" { leaf deeper { type string; } }
  augment "/t:c" { container added2; }
  deviation "/t:c/t:l" { deviate replace { default "zz"; } }
}`,
	"m4": `module m4 { namespace "urn:m4"; prefix m4; include s4;
  container top { uses sg; }
}`,
	"s4": `submodule s4 { belongs-to m4 { prefix m4; }
  grouping sg { leaf sl { type string; } }
  container fromsub { leaf x { type string; } }
}`,
	// a submodule reachable by two include paths
	"m6":  `module m6 { namespace "urn:m6"; prefix m6; include s6a; include s6b; container top6 { uses ga; uses gb; } }`,
	"s6a": `submodule s6a { belongs-to m6 { prefix m6; } include s6b; grouping ga { leaf la { type string; } } container ca { uses gb; } }`,
	"s6b": `submodule s6b { belongs-to m6 { prefix m6; } grouping gb { leaf lb { type string; } } container cb; }`,
	// two revisions of one module and an importer without revision-date: the import must follow the latest loaded
	"bb-r1": `module bb { namespace "urn:bb"; prefix bb; revision 2020-01-01; grouping g { leaf old { type string; } } typedef t { type string; } container bc { leaf only-r1 { type string; } leaf both { type string; } } }`,
	"bb-r2": `module bb { namespace "urn:bb"; prefix bb; revision 2021-01-01; grouping g { leaf new { type string; } } typedef t { type int32; } container bc { leaf only-r2 { type string; } leaf both { type int8; } } }`,
	"ib": `module ib { namespace "urn:ib"; prefix ib; import bb { prefix bb; } container c { uses bb:g; } leaf l { type bb:t; } typedef tl { type bb:t; } leaf k { type tl; }
  leaf u { type union { type bb:t; type boolean; } } typedef tu { type union { type tl; type bb:t { pattern "p.*"; } } } leaf ku { type tu; }
  augment "/bb:bc" { leaf from-ib { type string; } }
  grouping ig { leaf gl { type bb:t; } leaf gk { type tl; } uses bb:g; } container cg { uses ig; } }`,
	// two revisions of an importer, each naming its own revision of bb under the SAME prefix: what p:t means is a matter of
	// the importing revision, whatever the order in which the library's maps hand the modules out
	"ab-r1": `module ab { namespace "urn:ab"; prefix ab; import bb { prefix p; revision-date 2020-01-01; } revision 2020-02-02;
  leaf l { type p:t; } typedef lt { type p:t; } leaf k { type lt; } container c { uses p:g; } }`,
	"ab-r2": `module ab { namespace "urn:ab"; prefix ab; import bb { prefix p; revision-date 2021-01-01; } revision 2021-02-02;
  leaf l { type p:t; } typedef lt { type p:t; } leaf k { type lt; } container c { uses p:g; } }`,
	// accepted by the loader, rejected by Process: the errors must come back on every run
	"e5": `module e5 { namespace "urn:e5"; prefix e5;
  typedef small { type int8 { range "1..500"; } }
  leaf bad { type small; }
  leaf worse { type string { length "5..1"; } }
  leaf fine { type string; }
}`,
	// a second text for the module name t2, with a typedef that does not resolve: refused by the set when t2 is loaded
	"t2c": `module t2 { namespace "urn:t2"; prefix t2;
  typedef broken { type nosuch; }
  container c { leaf third { type string; } }
}`,
	// ---- second catalogue (MCGood2 / MCBad2) ----
	// an error found while a type is resolved (fraction-digits of a derived decimal64 overridden): every run must report it
	"fd": `module fd { namespace "urn:fd"; prefix fd;
  typedef d2 { type decimal64 { fraction-digits 2; } }
  typedef d3 { type d2 { fraction-digits 3; } }
  leaf x { type d2 { fraction-digits 3; } }
  leaf fine { type d2; }
}`,
	// several errors on ONE line, at columns with one, two and three digits (and one on line 10 after lines 2 and 9)
	"e6": `module e6 { namespace "urn:e6"; prefix e6;
  leaf a { type aa; } leaf bbbbb { type bb; } leaf cccccccccc { type cc; } leaf dddddddddddddddddddddddddddddddddddddddddddddddddddddddd { type dd; }



  leaf n5 { type string; }


  leaf l9 { type t9; }
  leaf l10 { type t10; }
}`,
	// a target module and a module (without revision statement) that augments and deviates it
	"tgt": `module tgt { namespace "urn:tgt"; prefix tgt;
  container c { leaf l { type string; default "d"; } leaf-list ll { type string; max-elements 5; } }
  rpc r { output { leaf o { type string; } } }
}`,
	// a second module claiming tgt's namespace
	"tgt2": `module tgt2 { namespace "urn:tgt"; prefix tgt2; leaf other { type string; } }`,
	"dv": `module dv { namespace "urn:dv"; prefix dv; import tgt { prefix t; }
  augment "/t:c" { leaf grafted { type string; } }
  augment "/t:r/t:input" { leaf gi { type string; } }
  deviation "/t:c/t:l" { deviate replace { default "late"; } }
  deviation "/t:c/t:ll" { deviate replace { max-elements 2; } }
  deviation "/t:c/t:nosuch" { deviate not-supported; }
}`,
	// the same without the deviation that cannot be applied: a clean set with augments, a shorthand choice member and deviations
	"dvok": `module dvok { namespace "urn:dvok"; prefix dvok; import tgt { prefix t; }
  augment "/t:c" { leaf grafted2 { type string; } choice ch { leaf sh { type string; } } }
  deviation "/t:c/t:l" { deviate replace { default "clean"; } }
  deviation "/t:c/t:ll" { deviate replace { max-elements 3; } }
}`,
	// a module with a revision statement (loaded after others it changes nothing for them)
	"rv": `module rv { namespace "urn:rv"; prefix rv; revision 2022-02-02; leaf r { type string; } }`,
	// identities with two bases, one of them in a module that may be loaded later; an identityref typedef likewise
	"idm": `module idm { yang-version 1.1; namespace "urn:idm"; prefix idm; import idb { prefix b; }
  identity LOCAL; identity BOTH { base LOCAL; base b:ROOT; } identity BELOW { base BOTH; }
  identity HALF { base LOCAL; base NOWHERE; }
  typedef tr { type identityref { base b:ROOT; } }
  leaf lr { type tr; }
  leaf ll { type identityref { base LOCAL; } }
}`,
	"idb": `module idb { namespace "urn:idb"; prefix idb; identity ROOT; leaf r { type identityref { base ROOT; } } }`,
	// linking fails: the import cannot be satisfied
	"lnk": `module lnk { namespace "urn:lnk"; prefix lnk; import nowhere-to-be-found { prefix n; } leaf l { type string; } }`,
	// a grouping with an error of its own, used twice
	"bg": `module bg { namespace "urn:bg"; prefix bg;
  grouping g { uses no-such-grouping; leaf x { type string; } }
  container c1 { uses g; }
  list c2 { key x; uses g; }
}`,
	// two revisions of a submodule with different identities; another module derives from an identity only the older one has
	"au": `module ida { namespace "urn:ida"; prefix ida; include ids; identity top; identity lone; }
module idu { namespace "urn:idu"; prefix idu; import ida { prefix a; } identity d { base a:x; } identity e { base a:top; } leaf r { type identityref { base a:top; } } }`,
	"sr1": `submodule ids { belongs-to ida { prefix ida; } revision 2020-01-01; identity x { base ida:top; } identity only1 { base ida:lone; } }`,
	"sr2": `submodule ids { belongs-to ida { prefix ida; } revision 2021-01-01; identity z { base ida:top; } }`,
	// a base identity whose only derived identity lives in the older revision of an included submodule: once the newer
	// revision is loaded nothing is derived from it any more (and nothing else goes wrong in that run)
	"lo":  `module lom { namespace "urn:lom"; prefix lom; include los; identity lone; identity kept; leaf r { type identityref { base lone; } } }`,
	"lo1": `submodule los { belongs-to lom { prefix lom; } revision 2020-01-01; identity only1 { base lom:lone; } identity k1 { base lom:kept; } }`,
	"lo2": `submodule los { belongs-to lom { prefix lom; } revision 2021-01-01; identity other; identity k2 { base lom:kept; } }`,
	// read from a FILE (Modules.Read) in the directory that also holds its dependency bbf.yang and the broken xf.yang
	"ibf": `module ibf { namespace "urn:ibf"; prefix ibf; import bbf { prefix b; } leaf l { type b:tf; } }`,
	"bbf": `module bbf { namespace "urn:bbf"; prefix bbf; typedef tf { type string; units "from-file"; } }`,
	// a submodule of fm1 that fm2 includes as well (it does not belong to fm2: an error, in every run and order)
	"fm1": `module fm1 { namespace "urn:fm1"; prefix fm1; include fs; leaf own1 { type string; } }`,
	"fm2": `module fm2 { namespace "urn:fm2"; prefix fm2; include fs; leaf own2 { type string; } }`,
	"fs":  `submodule fs { belongs-to fm1 { prefix fm1; } leaf y { type string; } }`,
	// builds as a container node with typedefs of a type that is not built in, refused by the set because it is not a module
	"x-top-level-container": `container stray { typedef st { type other; } typedef st2 { type p:other; } leaf l { type st; } }`,
	// builds as a grouping node, refused by the set because it is not a module
	"x-top-level-grouping": `grouping g { typedef broken2 { type nosuch; } leaf l { type string; } }`,
	"x-syntax":             `module xs { namespace "urn:xs"; prefix xs; container c { leaf l { type string; }`,
	"x-typedefs-then-rejected": `module xt { namespace "urn:xt"; prefix xt;
  container c { typedef tt { type nosuch; } typedef ok { type string; } }
  bogus-statement here;
}`,
	"x-unknown-top": `foo bar;`,
	// offered through Modules.Read as a file whose directory also holds bb.yang: the failed read must not make that directory a search path
	"x-file-syntax": `module xf { namespace "urn:xf"; prefix xf; container c {`,
	"x-second-module-rejected": `module ok4 { namespace "urn:ok4"; prefix ok4; container fine; }
module bad4 { namespace "urn:bad4"; prefix bad4; bogus-statement here; }`,
}

type op struct {
	Op   string `json:"op"`
	Text string `json:"text"`
	Ok   bool   `json:"ok"`
}
type cas struct {
	Hist   []op       `json:"hist"`
	Expect [][]string `json:"expect"`
	Prop   string     `json:"prop"`
}

func qual(i *yang.Identity) string {
	r := yang.RootNode(i)
	if r == nil {
		return "?:" + i.Name
	}
	if r.BelongsTo != nil {
		return r.BelongsTo.Name + ":" + i.Name
	}
	return r.Name + ":" + i.Name
}

// Dump is the canonical rendering of everything a caller can observe after Process.
func Dump(ms *yang.Modules, errs []error) string {
	var sb strings.Builder
	var es []string
	for _, e := range errs {
		es = append(es, e.Error())
	}
	fmt.Fprintf(&sb, "errors(%d): %s\n", len(es), strings.Join(es, " | "))
	var keys []string
	for k := range ms.Modules {
		keys = append(keys, k)
	}
	sort.Strings(keys)
	fmt.Fprintf(&sb, "modules: %s\n", strings.Join(keys, " "))
	keys = keys[:0]
	for k := range ms.SubModules {
		keys = append(keys, k)
	}
	sort.Strings(keys)
	fmt.Fprintf(&sb, "submodules: %s\n", strings.Join(keys, " "))
	for _, ns := range []string{"urn:tgt", "urn:dv", "urn:bb", "urn:nosuch"} {
		if m, err := ms.FindModuleByNamespace(ns); err == nil {
			fmt.Fprintf(&sb, "namespace %s -> %s\n", ns, m.FullName())
		} else {
			fmt.Fprintf(&sb, "namespace %s -> error %v\n", ns, err)
		}
	}
	if len(errs) > 0 {
		// with errors: the same errors, and the trees a caller can still read are those
		// of a fresh set in the same situation (paths and kinds only)
		keys = keys[:0]
		for k := range ms.Modules {
			keys = append(keys, k)
		}
		sort.Strings(keys)
		for _, k := range keys {
			flat := schema.Flatten(yang.ToEntry(ms.Modules[k]))
			var ps []string
			for p, o := range flat {
				ps = append(ps, p+"("+o.Kind+")")
			}
			sort.Strings(ps)
			fmt.Fprintf(&sb, "after-errors %s: %s\n", k, strings.Join(ps, " "))
		}
		return sb.String()
	}
	keys = keys[:0]
	for k := range ms.Modules {
		keys = append(keys, k)
	}
	sort.Strings(keys)
	for _, k := range keys {
		m := ms.Modules[k]
		e := yang.ToEntry(m)
		flat := schema.Flatten(e)
		var ps []string
		for p := range flat {
			ps = append(ps, p)
		}
		sort.Strings(ps)
		for _, p := range ps {
			o := flat[p]
			t := ""
			if y := o.Entry.Type; y != nil {
				t = fmt.Sprintf(" type=%s/%s units=%q dflt=%q pats=%v range=%s", y.Name, yang.TypeKindToName[y.Kind], y.Units, y.Default, y.Pattern, y.Range)
				for _, mt := range y.Type { // union members, one level
					t += fmt.Sprintf(" member=%s/%s/%q/%v", mt.Name, yang.TypeKindToName[mt.Kind], mt.Units, mt.Pattern)
				}
				if y.IdentityBase != nil {
					var vs []string
					for _, v := range y.IdentityBase.Values {
						vs = append(vs, qual(v))
					}
					t += " idbase=" + qual(y.IdentityBase) + "[" + strings.Join(vs, ",") + "]"
				}
			}
			fmt.Fprintf(&sb, "%s/%s %s ro=%v ns=%s imod=%s cfg=%s dflt=%v dv=%v nerr=%d%s\n", k, p, o.Kind, o.Ro, o.Ns, o.Imod, o.Cfg, o.Dflt, o.Entry.DefaultValues(), len(o.Entry.Errors), t)
		}
		for _, i := range m.Identities() {
			var vs []string
			for _, v := range i.Values {
				vs = append(vs, qual(v))
			}
			fmt.Fprintf(&sb, "%s identity %s [%s]\n", k, i.Name, strings.Join(vs, ","))
		}
		// lookups under the prefixes of this module's imports: they lead into the tree of the module the import denotes NOW
		for _, imp := range m.Import {
			if imp.Module == nil || imp.Prefix == nil {
				continue
			}
			te := yang.ToEntry(imp.Module)
			var cs []string
			for n := range te.Dir {
				cs = append(cs, n)
			}
			sort.Strings(cs)
			for _, n := range cs {
				res := "nothing"
				switch got := e.Find("/" + imp.Prefix.Name + ":" + n); {
				case got == te.Dir[n]:
					res = "that node"
				case got != nil:
					res = "another node (" + got.Path() + ")"
				}
				fmt.Fprintf(&sb, "%s find /%s:%s (%s) -> %s\n", k, imp.Prefix.Name, n, imp.Module.FullName(), res)
			}
		}
	}
	return sb.String()
}

// loadText offers one text of the catalogue to the set: through Parse, or (for the file texts) through Read of a file
// in the directory "files", which also holds loadable dependencies.
func loadText(ms *yang.Modules, id string) error {
	switch id {
	case "x-file-syntax", "ibf":
		os.MkdirAll("files", 0o755)
		os.WriteFile("files/xf.yang", []byte(Texts["x-file-syntax"]), 0o644)
		os.WriteFile("files/bb.yang", []byte(Texts["bb-r1"]), 0o644)
		os.WriteFile("files/bbf.yang", []byte(Texts["bbf"]), 0o644)
		// (the module that "lnk" imports and nobody loads lives here too: once a file of this directory has been read,
		// a run finds it - also a run that follows one in which it could not be found)
		os.WriteFile("files/nowhere-to-be-found.yang", []byte(`module nowhere-to-be-found { namespace "urn:nw"; prefix nw; leaf found { type string; } }`), 0o644)
		os.WriteFile("files/ibf.yang", []byte(Texts["ibf"]), 0o644)
		if id == "ibf" {
			return ms.Read("files/ibf.yang")
		}
		return ms.Read("files/xf.yang")
	}
	return ms.Parse(Texts[id], id+".yang")
}

// LoadText is loadText for the other families.
func LoadText(ms *yang.Modules, id string) error { return loadText(ms, id) }

func batch(ids []string) string {
	ms := yang.NewModules()
	for _, id := range ids {
		if err := loadText(ms, id); err != nil {
			return "batch load of " + id + " failed: " + err.Error()
		}
	}
	return Dump(ms, ms.Process())
}

func queries(ms *yang.Modules) {
	for _, ns := range []string{"urn:i1", "urn:t2", "urn:a3", "urn:m4", "urn:bb", "urn:ib", "urn:tgt", "urn:dv", "urn:rv", "urn:idm", "urn:idb", "urn:lnk", "urn:nosuch"} {
		ms.FindModuleByNamespace(ns)
	}
	for _, m := range ms.Modules {
		e := yang.ToEntry(m)
		e.GetErrors()
		for _, p := range []string{"/t2:c/t2:l", "/t2:r/t2:input", "/t2:r/t2:output", "/i1:r", "/m4:top/m4:sl", "/t2:nosuch"} {
			e.Find(p)
		}
		if m.Namespace != nil {
			ms.FindModuleByNamespace(m.Namespace.Name)
		}
		for _, c := range e.Dir {
			c.Namespace()
			c.InstantiatingModule()
			c.ReadOnly()
		}
	}
}

// replay runs the history (without the loads of the texts in skip) and returns
// a description of the first disagreement, or "".
func replay(c *cas, skip map[string]bool) (sig, detail string) {
	ms := yang.NewModules()
	np := 0
	for i, o := range c.Hist {
		switch o.Op {
		case "load":
			if skip[o.Text] {
				continue
			}
			err := loadText(ms, o.Text)
			if (err == nil) != o.Ok {
				if o.Ok {
					return "good-text-rejected", fmt.Sprintf("step %d load %s: the specification accepts, the library says %v", i+1, o.Text, err)
				}
				return "rejected-text-accepted", fmt.Sprintf("step %d load %s: the specification rejects (bad text or module name already loaded), the library accepted it", i+1, o.Text)
			}
		case "query":
			queries(ms)
		case "clear":
			ms.ClearEntryCache()
		case "get":
			// GetModule of the first module loaded: the set is processed and that module's tree handed out
			name := ""
			for _, h := range c.Hist[:i] {
				if h.Op == "load" && h.Ok && !skip[h.Text] {
					if m := reModName.FindStringSubmatch(Texts[h.Text]); m != nil {
						name = m[1]
						break
					}
				}
			}
			_, gerrs := ms.GetModule(name)
			got := Dump(ms, gerrs)
			want := batch(c.Expect[np])
			np++
			if got != want {
				return "getmodule-differs", fmt.Sprintf("step %d GetModule(%s): the set reads differently from the batch run of %v on a fresh set:\n%s\nversus\n%s", i+1, name, c.Expect[np-1], firstDiff(got, want), "")
			}
		case "process":
			got := Dump(ms, ms.Process())
			want := batch(c.Expect[np])
			np++
			if got != want {
				gl, wl := strings.Split(got, "\n"), strings.Split(want, "\n")
				d := ""
				for k := 0; k < len(gl) || k < len(wl); k++ {
					g, w := "", ""
					if k < len(gl) {
						g = gl[k]
					}
					if k < len(wl) {
						w = wl[k]
					}
					if g != w {
						d = fmt.Sprintf("first differing line: this set %q, fresh set %q", g, w)
						break
					}
				}
				sig := "batch-differs"
				if strings.HasPrefix(got, "errors(0)") != strings.HasPrefix(want, "errors(0)") {
					sig = "batch-differs-in-errors"
				}
				return sig, fmt.Sprintf("step %d Process: the result differs from the batch run of %v on a fresh set; %s", i+1, c.Expect[np-1], d)
			}
		}
	}
	return "", ""
}

var reModName = regexp.MustCompile(`^\s*module\s+([A-Za-z0-9_-]+)`)

func firstDiff(got, want string) string {
	gl, wl := strings.Split(got, "\n"), strings.Split(want, "\n")
	for k := 0; k < len(gl) || k < len(wl); k++ {
		g, w := "", ""
		if k < len(gl) {
			g = gl[k]
		}
		if k < len(wl) {
			w = wl[k]
		}
		if g != w {
			return fmt.Sprintf("first differing line: this set %q, fresh set %q", g, w)
		}
	}
	return ""
}

func safeReplay(c *cas, skip map[string]bool) (sig, detail string) {
	defer func() {
		if r := recover(); r != nil {
			sig, detail = "panic", fmt.Sprint(r)
		}
	}()
	return replay(c, skip)
}

func exec(kind byte, body []byte) *core.Verdict {
	if kind == 'B' {
		return genSession(body)
	}
	var c cas
	if err := json.Unmarshal(body, &c); err != nil {
		return &core.Verdict{Infra: "case: " + err.Error()}
	}
	tmp, err := os.MkdirTemp(core.Root+"/out", "ses")
	if err != nil {
		return &core.Verdict{Infra: err.Error()}
	}
	defer os.RemoveAll(tmp)
	os.Chdir(tmp) // nothing to fetch from the file system
	v := &core.Verdict{OK: true, Class: "history", NT: len(c.Expect) >= 2 || len(c.Hist) >= 3}
	var hs []string
	for _, o := range c.Hist {
		if o.Op == "load" {
			hs = append(hs, "load("+o.Text+")")
		} else {
			hs = append(hs, o.Op)
		}
	}
	if c.Prop == "C01" { // only "every call returns": a panic reaches the executor, a hang its time limit
		replay(&c, nil)
		return v
	}
	sig, detail := safeReplay(&c, nil)
	if sig == "" {
		if len(c.Hist) == 5 && c.Hist[1].Op == "process" && c.Hist[2].Text == "a3" {
			v.Sample = map[string]any{"history": hs, "batches_compared": c.Expect}
		}
		return v
	}
	// which failed loads does the disagreement depend on?
	var culprits []string
	seen := map[string]bool{}
	for _, o := range c.Hist {
		if o.Op == "load" && !o.Ok && strings.HasPrefix(o.Text, "x-") && !seen[o.Text] {
			seen[o.Text] = true
			if s, _ := safeReplay(&c, map[string]bool{o.Text: true}); s == "" {
				culprits = append(culprits, o.Text)
			}
		}
	}
	if len(culprits) == 0 && len(seen) > 1 {
		// several failed loads, each enough on its own: does dropping all of them help?
		if s, _ := safeReplay(&c, seen); s == "" {
			for t := range seen {
				culprits = append(culprits, t)
			}
		}
	}
	sort.Strings(culprits)
	v.Class = "no-failed-load-involved"
	if len(culprits) > 0 {
		v.Class = "after-failed-load:" + strings.Join(culprits, "+")
	}
	if sig == "panic" {
		// re-run unprotected so that the executor reports the frame
		replay(&c, nil)
	}
	v.OK, v.Sig, v.Detail = false, sig, detail+"\nhistory: "+strings.Join(hs, " ; ")
	return v
}

// Histories lets another property's check run the histories of the second catalogue that load one of the
// given texts: what the property promises must hold however the set was arrived at.
var first = map[string]bool{"ab-r1": true, "i1": true, "t2": true, "t2b": true, "t2c": true, "a3": true, "m4": true, "s4": true, "bb-r1": true, "bb-r2": true, "ib": true, "e5": true}

var third = map[string]bool{"lo": true, "lo1": true, "lo2": true, "idm": true, "idb": true, "fm1": true, "fm2": true, "fs": true, "au": true, "sr1": true, "sr2": true, "ibf": true}

func Histories(r *core.Run, prop string, texts ...string) {
	core.CaseSuffix = `,"prop":"` + prop + `"}`
	keep := func(i int64, body string) bool {
		if strings.Contains(body, `"ok":false`) {
			return false // what a refused load leaves behind is C18's own question
		}
		for _, t := range texts {
			if strings.Contains(body, `"text":"`+t+`"`) {
				return true
			}
		}
		return false
	}
	// one run per catalogue that holds one of the texts
	need := map[string]bool{}
	for _, t := range texts {
		switch {
		case first[t]:
			need["MCSession_quick.cfg"] = true
		case third[t]:
			need["MCSession_quick3.cfg"] = true
		default:
			need["MCSession_quick2.cfg"] = true
		}
	}
	for _, cfg := range []string{"MCSession_quick.cfg", "MCSession_quick2.cfg", "MCSession_quick3.cfg"} {
		if need[cfg] {
			r.DirectionA("session", core.TLCOpts{Module: "MCSession", Cfg: cfg, Workers: 12, HeapGB: 16, Timeout: 0}, keep)
		}
	}
	core.CaseSuffix = ""
}

func check(r *core.Run) {
	cfg := "MCSession_quick.cfg"
	if r.Tier == "thorough" {
		cfg = "MCSession_thorough.cfg"
	}
	r.Rule = "A: every history of up to 5 operations (thorough: 6 over reduced catalogues) over three catalogues of good texts; first catalogue: load(good text) for 10 (11) texts (identities + identityref; typedefs, grouping, uses, choice, rpc; a module importing both with chained augments, a deviation and a derived identity; a module including a submodule; that submodule; a second text defining an already used module name), load(bad text) for 4 kinds (syntax error; rejected after nested typedefs were registered; unknown top-level keyword; two-module text whose second module is rejected), Process and Query (Find incl. unwritten rpc input/output, GetErrors, namespace lookups) that ends with Process; each replayed on one Modules; after every Process the complete observable state (error texts, module keys, every path with kind, ReadOnly, namespace, instantiating module, config, defaults, DefaultValues, resolved type incl. identity values, identity value lists) is compared with a batch run of exactly the texts Session.tla says were accepted, on a fresh set. Non-trivial = at least two Process steps or three operations. Reads are enabled at any time once a text is loaded. B: histories of 8-18 operations (loads of good and bad texts, Process, GetModule, ClearEntryCache, reads) over all catalogues at once, every operation a step of Session.tla (SessionTrace.tla)."
	r.Exhaustive = true
	r.Assumptions = []string{"Batch is computed by the real library on a fresh set (the statement defines the property that way); the specification decides which texts count"}
	r.DirectionA("session", core.TLCOpts{Module: "MCSession", Cfg: cfg, Workers: 12, HeapGB: 16, Timeout: 0}, nil)
	r.DirectionA("session", core.TLCOpts{Module: "MCSession", Cfg: strings.Replace(cfg, ".cfg", "2.cfg", 1), Workers: 12, HeapGB: 16, Timeout: 0}, nil)
	r.DirectionA("session", core.TLCOpts{Module: "MCSession", Cfg: strings.Replace(cfg, ".cfg", "3.cfg", 1), Workers: 12, HeapGB: 16, Timeout: 0}, nil)
	if r.Tier == "thorough" {
		r.DirectionA("session", core.TLCOpts{Module: "MCSession", Cfg: "MCSession_thorough_six.cfg", Workers: 12, HeapGB: 16, Timeout: 0}, nil)
	}
	// direction B: long random histories over all catalogues at once, every operation a step of Session.tla
	n := 300
	if r.Tier == "thorough" {
		n = 4000
	}
	r.DirectionB("session", n, core.TLCOpts{Module: "SessionTrace", Cfg: "SessionTrace.cfg", HeapGB: 8})
}

// ---- direction B: long random histories judged step by step by SessionTrace.tla ----------------

var goodIDs = []string{"ab-r1", "t2c", "ib", "bb-r1", "bb-r2", "e5", "i1", "t2", "a3", "m4", "s4", "t2b",
	"fd", "e6", "tgt", "tgt2", "dv", "dvok", "rv", "lnk", "bg",
	"idm", "idb", "fm1", "fm2", "fs", "au", "sr1", "sr2", "lo", "lo1", "lo2"}

// (the text read from a FILE, "ibf", is left to the exhaustive third catalogue: a successful Read makes its directory part
// of the search path, and a later Process may then fetch bb.yang from there for an importer of bb - a load that
// Session.tla does not model; the third catalogue holds no importer of bb)

// the two-module text whose second module is rejected is left out: what it leaves behind is the listed finding
var badIDs = []string{"x-file-syntax", "x-top-level-grouping", "x-syntax", "x-typedefs-then-rejected", "x-unknown-top", "x-top-level-container"}

func genSession(body []byte) *core.Verdict {
	var q struct {
		Seed int64
		Tid  int
	}
	json.Unmarshal(body, &q)
	rng := rand.New(rand.NewSource(q.Seed*49979687 + int64(q.Tid)))
	tmp, err := os.MkdirTemp(core.Root+"/out", "sesb")
	if err != nil {
		return &core.Verdict{Infra: err.Error()}
	}
	defer os.RemoveAll(tmp)
	os.Chdir(tmp)
	reset, _ := json.Marshal(map[string]any{"ev": "reset", "tid": q.Tid})
	events := []json.RawMessage{reset}
	emit := func(m map[string]any) {
		b, _ := json.Marshal(m)
		events = append(events, b)
	}
	// a history stays within a handful of texts, so that names collide and dependencies meet
	pool := append([]string{}, goodIDs...)
	rng.Shuffle(len(pool), func(i, j int) { pool[i], pool[j] = pool[j], pool[i] })
	pool = pool[:4+rng.Intn(5)]
	// texts that belong together travel together
	for _, grp := range [][]string{{"a3", "t2", "i1"}, {"ib", "bb-r1", "bb-r2"}, {"ab-r1", "bb-r2", "bb-r1"}, {"m4", "s4"}, {"dv", "tgt"}, {"dvok", "tgt"}, {"idm", "idb"}, {"au", "sr1", "sr2"}, {"fm1", "fs", "fm2"}, {"lo", "lo1", "lo2"}} {
		for _, p := range pool {
			if p == grp[0] {
				pool = append(pool, grp[1:]...)
				break
			}
		}
	}
	ms := yang.NewModules()
	accepted := []string{}
	var hs []string
	lastRun := false
	nops := 8 + rng.Intn(11)
	nrun := 0
	for i := 0; i < nops; i++ {
		x := rng.Intn(100)
		switch {
		case x < 45:
			id := pool[rng.Intn(len(pool))]
			lerr := loadText(ms, id)
			emit(map[string]any{"ev": "load", "text": id, "bad": false, "ok": lerr == nil})
			if lerr == nil {
				accepted = append(accepted, id)
			}
			hs = append(hs, "load("+id+")")
			lastRun = false
		case x < 58:
			id := badIDs[rng.Intn(len(badIDs))]
			lerr := loadText(ms, id)
			emit(map[string]any{"ev": "load", "text": id, "bad": true, "ok": lerr == nil})
			hs = append(hs, "load("+id+")")
			lastRun = false
		case x < 80 || (i == nops-1):
			got := Dump(ms, ms.Process())
			want := batch(accepted)
			emit(map[string]any{"ev": "process", "accepted": append([]string{}, accepted...), "eq": got == want, "diff": firstDiff(got, want)})
			hs = append(hs, "process")
			lastRun = true
			nrun++
		case x < 87:
			if len(accepted) == 0 || (len(hs) > 0 && hs[len(hs)-1] == "query") {
				continue
			}
			queries(ms)
			emit(map[string]any{"ev": "query"})
			hs = append(hs, "query")
			lastRun = false
		case x < 94:
			if len(accepted) == 0 {
				continue
			}
			name := ""
			for _, id := range accepted {
				if m := reModName.FindStringSubmatch(Texts[id]); m != nil {
					name = m[1]
					break
				}
			}
			if name == "" {
				continue
			}
			_, gerrs := ms.GetModule(name)
			got := Dump(ms, gerrs)
			want := batch(accepted)
			emit(map[string]any{"ev": "get", "accepted": append([]string{}, accepted...), "eq": got == want, "diff": firstDiff(got, want)})
			hs = append(hs, "get("+name+")")
			lastRun = true
			nrun++
		default:
			if !lastRun {
				continue
			}
			ms.ClearEntryCache()
			emit(map[string]any{"ev": "clear"})
			hs = append(hs, "clear")
			lastRun = false
		}
	}
	v := &core.Verdict{OK: true, Class: "generated-history", NT: nrun >= 2, Events: events, N: int64(1 + nrun)}
	if q.Tid == 1 {
		v.Sample = map[string]any{"history": hs}
	}
	return v
}

func lastProcess(hs []string) bool { return len(hs) > 0 && hs[len(hs)-1] == "process" }
