// Package ident binds Identities.tla (C11) to identity resolution behind Process.
package ident

import (
	"crypto/sha1"
	"encoding/json"
	"fmt"
	"math/rand"
	"sort"
	"strings"
	"sync"

	"github.com/openconfig/goyang/pkg/yang"
	"verifharness/core"
	"verifharness/fam/schema"
)

func init() {
	core.Register(&core.Family{Name: "ident", Exec: exec, Classify: classify})
	core.Checks["C11"] = check
	schema.C13Identities = SubmoduleIdentities
	schema.C05Identities = Repeatable
}

// Repeatable is the part of C05 that runs over the identity space: the order of every list is the same in every run
// and under every load order (same-named identities in modules that declare the same prefix included).
func Repeatable(r *core.Run) {
	core.CaseSuffix = `,"prop":"C05"}`
	defer func() { core.CaseSuffix = "" }()
	var mu sync.Mutex
	seen := map[[20]byte]bool{}
	r.DirectionA("ident", core.TLCOpts{Module: "MCI_quick", Cfg: "MCI_quick.cfg", Workers: 12, Timeout: 0, HeapGB: 16}, func(i int64, body string) bool {
		// ties in the order arise between identities of the same name: those programs, each once
		if classify('A', []byte(body)) != "same-name-in-two-modules" {
			return false
		}
		h := sha1.Sum([]byte(body))
		mu.Lock()
		defer mu.Unlock()
		if seen[h] {
			return false
		}
		seen[h] = true
		return true
	})
}

// SubmoduleIdentities: the programs of the quick space that place an identity in the submodule, under C13 (an included
// submodule contributes its identities as if they were written in the module: directly included, reached only through
// another submodule, and next to two sibling submodules - the three renderings of every program)
func SubmoduleIdentities(r *core.Run) {
	r.DirectionA("ident", core.TLCOpts{Module: "MCI_quick", Cfg: "MCI_quick.cfg", Workers: 12, Timeout: 0, HeapGB: 16}, func(i int64, body string) bool {
		return strings.Contains(body, `"home":"as"`)
	})
}

type key [2]string

func (k key) String() string { return k[0] + ":" + k[1] }

type id struct {
	Key   key    `json:"key"`
	Home  string `json:"home"`
	Bases []key  `json:"bases"`
}
type vals struct {
	Key  key   `json:"key"`
	Vals []key `json:"vals"`
}
type cas struct {
	// Prop: "C05" when the program is replayed for reproducibility only (the same sequences in every run and load order)
	Prop   string `json:"prop"`
	Ids    []id   `json:"ids"`
	Err    bool   `json:"err"`
	Values []vals `json:"values"`
}

func owner(h string) string {
	if h == "as" {
		return "a"
	}
	return h
}

func classOf(c *cas) string {
	names := map[string]int{}
	self := false
	for _, i := range c.Ids {
		names[i.Key[1]]++
		for _, b := range i.Bases {
			if b == i.Key {
				self = true
			}
		}
	}
	switch {
	case self:
		return "identity-based-on-itself"
	case c.Err:
		return "cycle-or-undefined-base"
	}
	for _, n := range names {
		if n > 1 {
			return "same-name-in-two-modules"
		}
	}
	return "acyclic"
}

func classify(kind byte, body []byte) string {
	var c cas
	if kind != 'A' || json.Unmarshal(body, &c) != nil {
		return "generated"
	}
	return classOf(&c)
}

// nested: module a includes submodule as0 only, which includes as (a submodule reached through another submodule)
var nested bool

// bothSpellings: a base in the identity's own module is written twice, without and with the module's own prefix
// ("base x; base a:x;"): two base statements, one identity - it still lists the derived identity once
var bothSpellings bool

// trio: module a includes as0 (which includes as), then as again, then as2; as2 holds what the model places in module a
// itself (the text of a submodule is text of its module), so every include statement of a has to be followed
var trio bool

func texts(c *cas, variant int, shared bool) map[string]string {
	body := map[string]*strings.Builder{"a": {}, "as": {}, "b": {}, "c": {}}
	present := map[key]bool{}
	for _, i := range c.Ids {
		present[i.Key] = true
	}
	ids := append([]id{}, c.Ids...)
	sort.Slice(ids, func(x, y int) bool { return ids[x].Key.String() < ids[y].Key.String() })
	for n, i := range ids {
		w := body[i.Home]
		fmt.Fprintf(w, "  identity %s {", i.Key[1])
		bs := append([]key{}, i.Bases...)
		sort.Slice(bs, func(x, y int) bool { return bs[x].String() < bs[y].String() })
		for m, b := range bs {
			sp := b.String()
			switch {
			case b[0] == "?":
				sp = "nosuch"
			case b[0] == owner(i.Home) && (n+m+variant)%2 == 0:
				sp = b[1]
			}
			fmt.Fprintf(w, " base %s;", sp)
			if bothSpellings && b[0] == owner(i.Home) {
				other := b.String()
				if sp == other {
					other = b[1]
				}
				fmt.Fprintf(w, " base %s;", other)
			}
		}
		w.WriteString(" }\n")
	}
	// identityref leaves: module c sees every module, a sees a and b, b sees b
	for _, i := range ids {
		for _, m := range []string{"a", "b", "c"} {
			if m == "b" && i.Key[0] != "b" || m == "a" && i.Key[0] == "c" {
				continue
			}
			if nested && i.Home == "as" {
				continue // module a does not include as itself: whether it (or an importer) may name as's definitions is the RFCs' business
			}
			fmt.Fprintf(body[m], "  leaf ref_%s_%s { type identityref { base %s; } }\n", i.Key[0], i.Key[1], i.Key.String())
		}
	}
	// the prefix a module declares for itself is its own business: in the shared
	// variant a, b and c all declare "pp" (importers still say a, b and c)
	pa, pb, pc := "a", "b", "c"
	fix := func(s, own string) string { return s }
	if shared {
		pa, pb, pc = "pp", "pp", "pp"
		fix = func(s, own string) string {
			// own-prefixed spellings inside the module follow its declared prefix
			s = strings.ReplaceAll(s, " base "+own+":", " base pp:")
			return s
		}
	}
	inc, as0 := "include as;", ""
	if nested {
		inc, as0 = "include as0;", "submodule as0 { belongs-to a { prefix a; } include as; }\n"
	}
	if trio {
		abody := body["a"].String()
		var ids, rest []string
		for _, l := range strings.SplitAfter(abody, "\n") {
			if strings.HasPrefix(l, "  identity ") {
				ids = append(ids, l)
			} else {
				rest = append(rest, l)
			}
		}
		return map[string]string{
			"as0": "submodule as0 { belongs-to a { prefix a; } include as; }\n",
			"as2": "submodule as2 { belongs-to a { prefix a; } import b { prefix b; }\n" + strings.Join(ids, "") + "}\n",
			"a":   "module a { namespace \"urn:a\"; prefix " + pa + "; import b { prefix b; } include as0; include as; include as2;\n" + strings.Join(rest, "") + "}\n",
			"as":  "submodule as { belongs-to a { prefix a; } import b { prefix sb; }\n" + strings.ReplaceAll(body["as"].String(), " base b:", " base sb:") + "}\n",
			"b":   "module b { namespace \"urn:b\"; prefix " + pb + ";\n" + fix(body["b"].String(), "b") + "}\n",
			"c":   "module c { namespace \"urn:c\"; prefix " + pc + "; import a { prefix a; } import b { prefix b; }\n" + fix(body["c"].String(), "c") + "}\n",
		}
	}
	return map[string]string{
		"as0": as0,
		"a":   "module a { namespace \"urn:a\"; prefix " + pa + "; import b { prefix b; } " + inc + "\n" + fix(body["a"].String(), "a") + "}\n",
		// the submodule imports b under a prefix of its own: prefixes resolve through the imports of the (sub)module that writes them
		"as": "submodule as { belongs-to a { prefix a; } import b { prefix sb; }\n" + strings.ReplaceAll(body["as"].String(), " base b:", " base sb:") + "}\n",
		"b":  "module b { namespace \"urn:b\"; prefix " + pb + ";\n" + fix(body["b"].String(), "b") + "}\n",
		"c":  "module c { namespace \"urn:c\"; prefix " + pc + "; import a { prefix a; } import b { prefix b; }\n" + fix(body["c"].String(), "c") + "}\n",
	}
}

func qual(i *yang.Identity) string {
	r := yang.RootNode(i)
	if r == nil {
		return "?:" + i.Name
	}
	if r.BelongsTo != nil {
		return r.BelongsTo.Name + ":" + i.Name
	}
	return r.Name + ":" + i.Name
}

func seq(vs []*yang.Identity) string {
	var s []string
	for _, v := range vs {
		s = append(s, qual(v))
	}
	return strings.Join(s, " ")
}

type obs struct {
	errs   int
	values map[string]string // identity -> sequence
	refs   map[string]string // leaf -> sequence seen through the identityref
	perr   error
}

func run(t map[string]string, order []string) obs {
	ms := yang.NewModules()
	for _, n := range order {
		if t[n] == "" {
			continue
		}
		if err := ms.Parse(t[n], n+".yang"); err != nil {
			return obs{perr: err}
		}
	}
	o := obs{values: map[string]string{}, refs: map[string]string{}}
	o.errs = len(ms.Process())
	if o.errs > 0 {
		return o
	}
	for _, m := range []*yang.Module{ms.Modules["a"], ms.SubModules["as"], ms.SubModules["as2"], ms.Modules["b"], ms.Modules["c"]} {
		if m == nil {
			continue
		}
		for _, i := range m.Identities() {
			o.values[qual(i)] = seq(i.Values)
		}
	}
	for _, m := range []string{"a", "b", "c"} {
		e := yang.ToEntry(ms.Modules[m])
		for n, l := range e.Dir {
			if strings.HasPrefix(n, "ref_") && l.Type != nil && l.Type.IdentityBase != nil {
				o.refs[m+"/"+n] = qual(l.Type.IdentityBase) + " = " + seq(l.Type.IdentityBase.Values)
			} else if strings.HasPrefix(n, "ref_") {
				o.refs[m+"/"+n] = "no identity base"
			}
		}
	}
	return o
}

func exec(kind byte, body []byte) *core.Verdict {
	if kind == 'B' {
		return gen(body)
	}
	var c cas
	if err := json.Unmarshal(body, &c); err != nil {
		return &core.Verdict{Infra: "case: " + err.Error()}
	}
	if c.Prop == "C05" {
		// every module declaring the same own prefix, and the plain rendering: 4 load orders each, twice
		for _, shared := range []bool{true, false, true} {
			v := judgeVariant(&c, len(body), shared)
			if v.Infra != "" {
				return v
			}
			if !v.OK && v.Sig != "order-varies" {
				v.OK, v.Out = true, true // (what the lists CONTAIN is C11's question)
			}
			if !v.OK || v.Out {
				return v
			}
		}
		return &core.Verdict{OK: true, Class: classOf(&c), NT: len(c.Ids) >= 2, N: 12}
	}
	v0 := judgeVariant(&c, len(body), false)
	if !v0.OK || v0.Infra != "" {
		return v0
	}
	nested = true
	v2 := &core.Verdict{OK: true}
	{
		home := map[key]string{}
		for _, i := range c.Ids {
			home[i.Key] = i.Home
		}
		valid := true
		for _, i := range c.Ids {
			for _, b := range i.Bases {
				if i.Home != "as" && home[b] == "as" {
					valid = false // text outside the nested submodule naming one of its identities
				}
			}
		}
		if valid {
			v2 = judgeVariant(&c, len(body), false)
		}
	}
	nested = false
	if !v2.OK || v2.Infra != "" {
		return v2
	}
	trio = true
	v3 := judgeVariant(&c, len(body), false)
	trio = false
	if !v3.OK || v3.Infra != "" {
		return v3
	}
	v0.N += v3.N
	bothSpellings = true
	v4 := judgeVariant(&c, len(body), false)
	bothSpellings = false
	if !v4.OK || v4.Infra != "" {
		v4.Detail = "(own-module bases written twice, with and without the own prefix) " + v4.Detail
		return v4
	}
	v0.N += v4.N
	v1 := judgeVariant(&c, len(body), true)
	v1.N += v0.N + v2.N
	if v1.Sample == nil {
		v1.Sample = v0.Sample
	}
	return v1
}

func judgeVariant(c0 *cas, variant int, shared bool) *core.Verdict {
	c := *c0
	v := &core.Verdict{OK: true, Class: classOf(&c), NT: len(c.Ids) >= 2}
	t := texts(&c, variant, shared)
	text := t["a"] + t["as0"] + t["as"] + t["as2"] + t["b"] + t["c"]
	fail := func(sig, f string, a ...any) *core.Verdict {
		v.OK, v.Sig, v.Detail = false, sig, fmt.Sprintf(f, a...)+"\n"+text
		return v
	}
	orders := [][]string{{"a", "as0", "as", "as2", "b", "c"}, {"c", "b", "as2", "as", "as0", "a"}, {"b", "c", "a", "as", "as2", "as0"}, {"as", "as0", "as2", "a", "c", "b"}}
	var first obs
	for k, ord := range orders {
		o := run(t, ord)
		v.N++
		if o.perr != nil {
			return &core.Verdict{Infra: "rendered modules do not parse: " + o.perr.Error() + "\n" + text}
		}
		if c.Err != (o.errs > 0) {
			if c.Err {
				return fail("undefined-base-or-cycle-accepted", "the specification reports an undefined base or a derivation cycle, Process returned no error")
			}
			return fail("valid-derivation-rejected", "the specification accepts, Process returned %d errors", o.errs)
		}
		if c.Err {
			return v
		}
		if k == 0 {
			first = o
			want := map[string][]string{}
			for _, x := range c.Values {
				var s []string
				for _, y := range x.Vals {
					s = append(s, y.String())
				}
				sort.Strings(s)
				want[x.Key.String()] = s
			}
			for idn, w := range want {
				g := strings.Fields(o.values[idn])
				gs := append([]string{}, g...)
				sort.Strings(gs)
				if strings.Join(gs, " ") != strings.Join(w, " ") {
					return fail("value-set-differs", "identity %s: specification {%s}, library [%s]", idn, strings.Join(w, " "), strings.Join(g, " "))
				}
				for i := 1; i < len(gs); i++ {
					if gs[i] == gs[i-1] {
						return fail("value-listed-twice", "identity %s: [%s]", idn, strings.Join(g, " "))
					}
				}
				// every identityref naming it sees the same list
				for leaf, r := range o.refs {
					if strings.HasSuffix(leaf, "/ref_"+strings.Replace(idn, ":", "_", 1)) && r != idn+" = "+o.values[idn] {
						return fail("identityref-differs", "leaf %s: identityref sees %q, the identity %s lists [%s]", leaf, r, idn, o.values[idn])
					}
				}
			}
			continue
		}
		for idn, s := range first.values {
			if o.values[idn] != s {
				return fail("order-varies", "identity %s lists [%s] in one run and [%s] in another (load order %v)", idn, s, o.values[idn], ord)
			}
		}
	}
	if len(c.Ids) == 4 && !c.Err && v.Class == "same-name-in-two-modules" {
		v.Sample = map[string]any{"yang": text, "values": first.values}
	}
	return v
}

func check(r *core.Run) {
	r.Rule = "A: identities in fixed slots (a:x in module a, a:y in its submodule, b:x and b:y in the imported module; thorough: c:x, c:y in a third module importing both), each present or absent with up to two bases among the other slots, itself and an undefined name (enumerated over edges, not spellings; own-module bases spelled with and without prefix); Identities.tla visits the dictionary in every order; each distinct program is rendered and processed 4 times under different load orders: error presence (undefined base, cycle), the value set of every identity, no duplicates, the list seen through every identityref leaf, and identical sequences across the 4 runs. Non-trivial = at least two identities. Every program is rendered five ways (submodule included directly, reached only through another submodule, next to sibling submodules, own-module bases written twice in both spellings, all modules declaring the same own prefix). B: random derivation graphs of up to ~30 identities over 2-4 modules with submodules, loaded in two orders, judged by IdentitiesTrace.tla."
	r.Exhaustive = true
	r.Assumptions = []string{"the order must be a function of the schema; which function is not prescribed, so sequences are compared between runs, sets with the specification"}
	cfgs := []string{"quick"}
	if r.Tier == "thorough" {
		cfgs = []string{"thorough", "three"}
	}
	var mu sync.Mutex
	seen := map[[20]byte]bool{}
	for _, c := range cfgs {
		r.DirectionA("ident", core.TLCOpts{Module: "MCI_" + c, Cfg: "MCI_" + c + ".cfg", Workers: 12, Timeout: 0, HeapGB: 16}, func(i int64, body string) bool {
			h := sha1.Sum([]byte(body))
			mu.Lock()
			defer mu.Unlock()
			if seen[h] {
				return false
			}
			seen[h] = true
			return true
		})
	}
	// identities whose bases arrive with a later load: the lists are those of a fresh set
	schema.SessionHistories(r, "C11", "idm")
	// direction B: random graphs over 2-4 modules with submodules, judged by IdentitiesTrace
	n := 300
	if r.Tier == "thorough" {
		n = 4000
	}
	r.DirectionB("ident", n, core.TLCOpts{Module: "IdentitiesTrace", Cfg: "IdentitiesTrace.cfg", HeapGB: 8})
}

// ---- direction B: random identity graphs judged by IdentitiesTrace.tla --------------

type bmod struct {
	name    string   // module name
	pfx     string   // prefix the module declares for itself
	imports []int    // indices of imported modules (earlier ones only: no import cycles)
	subs    []string // its submodules (each included by the module)
}

type bid struct {
	key   key
	home  string // module or submodule holding the statement
	mod   int
	bases []key
}

// gen builds one random program, runs it in two load orders and records what came out.
func gen(body []byte) *core.Verdict {
	var q struct {
		Seed int64
		Tid  int
	}
	json.Unmarshal(body, &q)
	rng := rand.New(rand.NewSource(q.Seed*104729 + int64(q.Tid)))
	nm := 2 + rng.Intn(3)
	mods := make([]bmod, nm)
	sharedPfx := rng.Intn(4) == 0
	for i := range mods {
		mods[i].name = fmt.Sprintf("m%d", i)
		mods[i].pfx = fmt.Sprintf("p%d", i)
		if sharedPfx {
			mods[i].pfx = "pp"
		}
		for j := 0; j < i; j++ {
			if rng.Intn(3) > 0 {
				mods[i].imports = append(mods[i].imports, j)
			}
		}
		for s := rng.Intn(3); s > 0; s-- {
			mods[i].subs = append(mods[i].subs, fmt.Sprintf("m%ds%d", i, s))
		}
	}
	names := []string{"alpha", "beta", "gamma", "delta", "eps", "zeta", "eta"}
	var ids []bid
	taken := map[key]bool{}
	visible := func(from, to int) bool { // may text of module from name identities of module to?
		if from == to {
			return true
		}
		for _, j := range mods[from].imports {
			if j == to {
				return true
			}
		}
		return false
	}
	total := 3 + rng.Intn(24)
	for n := 0; n < total; n++ {
		m := rng.Intn(nm)
		k := key{mods[m].name, names[rng.Intn(len(names))]}
		if taken[k] {
			continue
		}
		taken[k] = true
		home := mods[m].name
		if len(mods[m].subs) > 0 && rng.Intn(2) == 0 {
			home = mods[m].subs[rng.Intn(len(mods[m].subs))]
		}
		x := bid{key: k, home: home, mod: m}
		// bases among the identities generated so far (acyclic by construction)
		subIdx := func(mi int, h string) int {
			for a, s := range mods[mi].subs {
				if s == h {
					return a
				}
			}
			return -1
		}
		var cand []bid
		for _, o := range ids {
			if !visible(m, o.mod) {
				continue
			}
			// a submodule includes the siblings listed before it only: what it may name in a later one is the RFCs' business
			if o.mod == m && home != mods[m].name && o.home != mods[m].name && o.home != home && subIdx(m, o.home) > subIdx(m, home) {
				continue
			}
			cand = append(cand, o)
		}
		nb := 0
		switch r := rng.Intn(10); {
		case r < 2:
			nb = 0
		case r < 7:
			nb = 1
		case r < 9:
			nb = 2
		default:
			nb = 3
		}
		seen := map[key]bool{}
		for b := 0; b < nb && len(cand) > 0; b++ {
			o := cand[rng.Intn(len(cand))]
			if !seen[o.key] {
				seen[o.key] = true
				x.bases = append(x.bases, o.key)
			}
		}
		ids = append(ids, x)
	}
	// now and then something wrong: an undefined base, an identity based on itself, a longer cycle
	class := "acyclic"
	switch r := rng.Intn(12); {
	case r == 0 && len(ids) > 0:
		i := rng.Intn(len(ids))
		ids[i].bases = append(ids[i].bases, key{"?", "nosuch"})
		class = "cycle-or-undefined-base"
	case r == 1 && len(ids) > 0:
		i := rng.Intn(len(ids))
		ids[i].bases = append(ids[i].bases, ids[i].key)
		class = "identity-based-on-itself"
	case r == 2 && len(ids) > 1:
		// a back edge inside one module (visibility is certain there)
		for try := 0; try < 20; try++ {
			i, j := rng.Intn(len(ids)), rng.Intn(len(ids))
			if i < j && ids[i].home == ids[j].home {
				dup := false
				for _, b := range ids[i].bases {
					dup = dup || b == ids[j].key
				}
				if !dup {
					ids[i].bases = append(ids[i].bases, ids[j].key)
					class = "back-edge" // a cycle only if j reaches i
				}
				break
			}
		}
	}
	cnt := map[string]int{}
	for _, i := range ids {
		cnt[i.key[1]]++
	}
	if class == "acyclic" {
		for _, n := range cnt {
			if n > 1 {
				class = "same-name-in-two-modules"
			}
		}
	}
	// ---- rendering ----
	text := map[string]*strings.Builder{}
	var files []string
	w := func(f string) *strings.Builder {
		if text[f] == nil {
			text[f] = &strings.Builder{}
			files = append(files, f)
		}
		return text[f]
	}
	for i, m := range mods {
		b := w(m.name)
		fmt.Fprintf(b, "module %s { namespace \"urn:%s\"; prefix %s;\n", m.name, m.name, m.pfx)
		for _, j := range m.imports {
			fmt.Fprintf(b, "  import %s { prefix i%d; }\n", mods[j].name, j)
		}
		for _, s := range m.subs {
			fmt.Fprintf(b, "  include %s;\n", s)
			sb := w(s)
			// a submodule names the other modules through imports of its own, under prefixes of its own
			fmt.Fprintf(sb, "submodule %s { belongs-to %s { prefix own; }\n", s, m.name)
			for _, j := range m.imports {
				fmt.Fprintf(sb, "  import %s { prefix s%d; }\n", mods[j].name, j)
			}
			for _, s2 := range m.subs {
				if s2 == s {
					break
				}
				fmt.Fprintf(sb, "  include %s;\n", s2)
			}
		}
		_ = i
	}
	modIdx := map[string]int{}
	for i, m := range mods {
		modIdx[m.name] = i
	}
	for n, x := range ids {
		b := w(x.home)
		fmt.Fprintf(b, "  identity %s {", x.key[1])
		inSub := x.home != x.key[0]
		for k, bs := range x.bases {
			sp := ""
			switch {
			case bs[0] == "?":
				sp = "nosuch"
			case bs[0] == x.key[0]: // own module: with or without the own prefix
				if (n+k)%2 == 0 {
					sp = bs[1]
				} else if inSub {
					sp = "own:" + bs[1]
				} else {
					sp = mods[x.mod].pfx + ":" + bs[1]
				}
			case inSub:
				sp = fmt.Sprintf("s%d:%s", modIdx[bs[0]], bs[1])
			default:
				sp = fmt.Sprintf("i%d:%s", modIdx[bs[0]], bs[1])
			}
			fmt.Fprintf(b, " base %s;", sp)
		}
		b.WriteString(" }\n")
	}
	// a module on top that imports everything and holds one identityref leaf per identity
	top := w("top")
	top.WriteString("module top { namespace \"urn:top\"; prefix top;\n")
	for j, m := range mods {
		fmt.Fprintf(top, "  import %s { prefix t%d; }\n", m.name, j)
	}
	for n, x := range ids {
		fmt.Fprintf(top, "  leaf ref%d { type identityref { base t%d:%s; } }\n", n, x.mod, x.key[1])
	}
	for _, f := range files {
		text[f].WriteString("}\n")
	}
	// ---- two runs in different load orders ----
	type rec struct {
		Key  key   `json:"key"`
		Vals []key `json:"vals"`
	}
	runOnce := func(order []string) (perr error, nerr int, values, refs []rec) {
		ms := yang.NewModules()
		for _, f := range order {
			if err := ms.Parse(text[f].String(), f+".yang"); err != nil {
				return err, 0, nil, nil
			}
		}
		nerr = len(ms.Process())
		if nerr > 0 {
			return nil, nerr, nil, nil
		}
		toKeys := func(vs []*yang.Identity) []key {
			out := []key{}
			for _, v := range vs {
				q := qual(v)
				c := strings.IndexByte(q, ':')
				out = append(out, key{q[:c], q[c+1:]})
			}
			return out
		}
		byKey := map[key]*yang.Identity{}
		var all []*yang.Module
		for _, m := range ms.Modules {
			all = append(all, m)
		}
		for _, m := range ms.SubModules {
			all = append(all, m)
		}
		for _, m := range all {
			for _, i := range m.Identities() {
				q := qual(i)
				c := strings.IndexByte(q, ':')
				byKey[key{q[:c], q[c+1:]}] = i
			}
		}
		for _, x := range ids {
			if i := byKey[x.key]; i != nil {
				values = append(values, rec{x.key, toKeys(i.Values)})
			}
		}
		te := yang.ToEntry(ms.Modules["top"])
		for n, x := range ids {
			l := te.Dir[fmt.Sprintf("ref%d", n)]
			if l != nil && l.Type != nil && l.Type.IdentityBase != nil {
				refs = append(refs, rec{x.key, toKeys(l.Type.IdentityBase.Values)})
			} else {
				refs = append(refs, rec{x.key, []key{{"?", "no identity base"}}})
			}
		}
		return nil, nerr, values, refs
	}
	ord1 := append([]string{}, files...)
	ord2 := append([]string{}, files...)
	rng.Shuffle(len(ord2), func(i, j int) { ord2[i], ord2[j] = ord2[j], ord2[i] })
	p1, n1, v1, r1 := runOnce(ord1)
	p2, n2, v2, _ := runOnce(ord2)
	var sb strings.Builder
	for _, f := range files {
		sb.WriteString(text[f].String())
	}
	if p1 != nil || p2 != nil {
		return &core.Verdict{Infra: fmt.Sprintf("rendered modules do not parse: %v %v\n%s", p1, p2, sb.String())}
	}
	type jid struct {
		Key   key    `json:"key"`
		Home  string `json:"home"`
		Bases []key  `json:"bases"`
	}
	jids := []jid{}
	for _, x := range ids {
		bs := x.bases
		if bs == nil {
			bs = []key{}
		}
		jids = append(jids, jid{x.key, x.home, bs})
	}
	if v1 == nil {
		v1 = []rec{}
	}
	if v2 == nil {
		v2 = []rec{}
	}
	if r1 == nil {
		r1 = []rec{}
	}
	// a second run that errs where the first did not (or the reverse) shows as values # values2 or through err
	ev := map[string]any{"ev": "idents", "ids": jids, "err": n1 > 0 || n2 > 0, "errboth": n1 > 0 && n2 > 0, "values": v1, "values2": v2, "refs": r1, "yang": sb.String()}
	reset := map[string]any{"ev": "reset", "tid": q.Tid}
	e0, _ := json.Marshal(reset)
	e1, _ := json.Marshal(ev)
	v := &core.Verdict{OK: true, Class: class, NT: len(ids) >= 4, N: 2, Events: []json.RawMessage{e0, e1}}
	if q.Tid == 1 {
		v.Sample = map[string]any{"yang": sb.String(), "values": v1}
	}
	return v
}
