// Package ident binds Identities.tla (C11) to identity resolution behind Process.
package ident

import (
	"crypto/sha1"
	"encoding/json"
	"fmt"
	"sort"
	"strings"
	"sync"

	"github.com/openconfig/goyang/pkg/yang"
	"verifharness/core"
	"verifharness/fam/schema"
)

func init() {
	core.Register(&core.Family{Name: "ident", Exec: exec, Classify: classify})
	core.Checks["C11"] = check
}

type key [2]string

func (k key) String() string { return k[0] + ":" + k[1] }

type id struct {
	Key   key    `json:"key"`
	Home  string `json:"home"`
	Bases []key  `json:"bases"`
}
type vals struct {
	Key  key   `json:"key"`
	Vals []key `json:"vals"`
}
type cas struct {
	Ids    []id   `json:"ids"`
	Err    bool   `json:"err"`
	Values []vals `json:"values"`
}

func owner(h string) string {
	if h == "as" {
		return "a"
	}
	return h
}

func classOf(c *cas) string {
	names := map[string]int{}
	self := false
	for _, i := range c.Ids {
		names[i.Key[1]]++
		for _, b := range i.Bases {
			if b == i.Key {
				self = true
			}
		}
	}
	switch {
	case self:
		return "identity-based-on-itself"
	case c.Err:
		return "cycle-or-undefined-base"
	}
	for _, n := range names {
		if n > 1 {
			return "same-name-in-two-modules"
		}
	}
	return "acyclic"
}

func classify(kind byte, body []byte) string {
	var c cas
	if kind != 'A' || json.Unmarshal(body, &c) != nil {
		return "generated"
	}
	return classOf(&c)
}

// nested: module a includes submodule as0 only, which includes as (a submodule reached through another submodule)
var nested bool

// trio: module a includes as0 (which includes as), then as again, then as2; as2 holds what the model places in module a
// itself (the text of a submodule is text of its module), so every include statement of a has to be followed
var trio bool

func texts(c *cas, variant int, shared bool) map[string]string {
	body := map[string]*strings.Builder{"a": {}, "as": {}, "b": {}, "c": {}}
	present := map[key]bool{}
	for _, i := range c.Ids {
		present[i.Key] = true
	}
	ids := append([]id{}, c.Ids...)
	sort.Slice(ids, func(x, y int) bool { return ids[x].Key.String() < ids[y].Key.String() })
	for n, i := range ids {
		w := body[i.Home]
		fmt.Fprintf(w, "  identity %s {", i.Key[1])
		bs := append([]key{}, i.Bases...)
		sort.Slice(bs, func(x, y int) bool { return bs[x].String() < bs[y].String() })
		for m, b := range bs {
			sp := b.String()
			switch {
			case b[0] == "?":
				sp = "nosuch"
			case b[0] == owner(i.Home) && (n+m+variant)%2 == 0:
				sp = b[1]
			}
			fmt.Fprintf(w, " base %s;", sp)
		}
		w.WriteString(" }\n")
	}
	// identityref leaves: module c sees every module, a sees a and b, b sees b
	for _, i := range ids {
		for _, m := range []string{"a", "b", "c"} {
			if m == "b" && i.Key[0] != "b" || m == "a" && i.Key[0] == "c" {
				continue
			}
			if nested && i.Home == "as" {
				continue // module a does not include as itself: whether it (or an importer) may name as's definitions is the RFCs' business
			}
			fmt.Fprintf(body[m], "  leaf ref_%s_%s { type identityref { base %s; } }\n", i.Key[0], i.Key[1], i.Key.String())
		}
	}
	// the prefix a module declares for itself is its own business: in the shared
	// variant a, b and c all declare "pp" (importers still say a, b and c)
	pa, pb, pc := "a", "b", "c"
	fix := func(s, own string) string { return s }
	if shared {
		pa, pb, pc = "pp", "pp", "pp"
		fix = func(s, own string) string {
			// own-prefixed spellings inside the module follow its declared prefix
			s = strings.ReplaceAll(s, " base "+own+":", " base pp:")
			return s
		}
	}
	inc, as0 := "include as;", ""
	if nested {
		inc, as0 = "include as0;", "submodule as0 { belongs-to a { prefix a; } include as; }\n"
	}
	if trio {
		abody := body["a"].String()
		var ids, rest []string
		for _, l := range strings.SplitAfter(abody, "\n") {
			if strings.HasPrefix(l, "  identity ") {
				ids = append(ids, l)
			} else {
				rest = append(rest, l)
			}
		}
		return map[string]string{
			"as0": "submodule as0 { belongs-to a { prefix a; } include as; }\n",
			"as2": "submodule as2 { belongs-to a { prefix a; } import b { prefix b; }\n" + strings.Join(ids, "") + "}\n",
			"a":   "module a { namespace \"urn:a\"; prefix " + pa + "; import b { prefix b; } include as0; include as; include as2;\n" + strings.Join(rest, "") + "}\n",
			"as":  "submodule as { belongs-to a { prefix a; } import b { prefix sb; }\n" + strings.ReplaceAll(body["as"].String(), " base b:", " base sb:") + "}\n",
			"b":   "module b { namespace \"urn:b\"; prefix " + pb + ";\n" + fix(body["b"].String(), "b") + "}\n",
			"c":   "module c { namespace \"urn:c\"; prefix " + pc + "; import a { prefix a; } import b { prefix b; }\n" + fix(body["c"].String(), "c") + "}\n",
		}
	}
	return map[string]string{
		"as0": as0,
		"a":   "module a { namespace \"urn:a\"; prefix " + pa + "; import b { prefix b; } " + inc + "\n" + fix(body["a"].String(), "a") + "}\n",
		// the submodule imports b under a prefix of its own: prefixes resolve through the imports of the (sub)module that writes them
		"as": "submodule as { belongs-to a { prefix a; } import b { prefix sb; }\n" + strings.ReplaceAll(body["as"].String(), " base b:", " base sb:") + "}\n",
		"b":  "module b { namespace \"urn:b\"; prefix " + pb + ";\n" + fix(body["b"].String(), "b") + "}\n",
		"c":  "module c { namespace \"urn:c\"; prefix " + pc + "; import a { prefix a; } import b { prefix b; }\n" + fix(body["c"].String(), "c") + "}\n",
	}
}

func qual(i *yang.Identity) string {
	r := yang.RootNode(i)
	if r == nil {
		return "?:" + i.Name
	}
	if r.BelongsTo != nil {
		return r.BelongsTo.Name + ":" + i.Name
	}
	return r.Name + ":" + i.Name
}

func seq(vs []*yang.Identity) string {
	var s []string
	for _, v := range vs {
		s = append(s, qual(v))
	}
	return strings.Join(s, " ")
}

type obs struct {
	errs   int
	values map[string]string // identity -> sequence
	refs   map[string]string // leaf -> sequence seen through the identityref
	perr   error
}

func run(t map[string]string, order []string) obs {
	ms := yang.NewModules()
	for _, n := range order {
		if t[n] == "" {
			continue
		}
		if err := ms.Parse(t[n], n+".yang"); err != nil {
			return obs{perr: err}
		}
	}
	o := obs{values: map[string]string{}, refs: map[string]string{}}
	o.errs = len(ms.Process())
	if o.errs > 0 {
		return o
	}
	for _, m := range []*yang.Module{ms.Modules["a"], ms.SubModules["as"], ms.SubModules["as2"], ms.Modules["b"], ms.Modules["c"]} {
		if m == nil {
			continue
		}
		for _, i := range m.Identities() {
			o.values[qual(i)] = seq(i.Values)
		}
	}
	for _, m := range []string{"a", "b", "c"} {
		e := yang.ToEntry(ms.Modules[m])
		for n, l := range e.Dir {
			if strings.HasPrefix(n, "ref_") && l.Type != nil && l.Type.IdentityBase != nil {
				o.refs[m+"/"+n] = qual(l.Type.IdentityBase) + " = " + seq(l.Type.IdentityBase.Values)
			} else if strings.HasPrefix(n, "ref_") {
				o.refs[m+"/"+n] = "no identity base"
			}
		}
	}
	return o
}

func exec(kind byte, body []byte) *core.Verdict {
	if kind == 'B' {
		return &core.Verdict{OK: true, Out: true}
	}
	var c cas
	if err := json.Unmarshal(body, &c); err != nil {
		return &core.Verdict{Infra: "case: " + err.Error()}
	}
	v0 := judgeVariant(&c, len(body), false)
	if !v0.OK || v0.Infra != "" {
		return v0
	}
	nested = true
	v2 := &core.Verdict{OK: true}
	{
		home := map[key]string{}
		for _, i := range c.Ids {
			home[i.Key] = i.Home
		}
		valid := true
		for _, i := range c.Ids {
			for _, b := range i.Bases {
				if i.Home != "as" && home[b] == "as" {
					valid = false // text outside the nested submodule naming one of its identities
				}
			}
		}
		if valid {
			v2 = judgeVariant(&c, len(body), false)
		}
	}
	nested = false
	if !v2.OK || v2.Infra != "" {
		return v2
	}
	trio = true
	v3 := judgeVariant(&c, len(body), false)
	trio = false
	if !v3.OK || v3.Infra != "" {
		return v3
	}
	v0.N += v3.N
	v1 := judgeVariant(&c, len(body), true)
	v1.N += v0.N + v2.N
	if v1.Sample == nil {
		v1.Sample = v0.Sample
	}
	return v1
}

func judgeVariant(c0 *cas, variant int, shared bool) *core.Verdict {
	c := *c0
	v := &core.Verdict{OK: true, Class: classOf(&c), NT: len(c.Ids) >= 2}
	t := texts(&c, variant, shared)
	text := t["a"] + t["as0"] + t["as"] + t["as2"] + t["b"] + t["c"]
	fail := func(sig, f string, a ...any) *core.Verdict {
		v.OK, v.Sig, v.Detail = false, sig, fmt.Sprintf(f, a...)+"\n"+text
		return v
	}
	orders := [][]string{{"a", "as0", "as", "as2", "b", "c"}, {"c", "b", "as2", "as", "as0", "a"}, {"b", "c", "a", "as", "as2", "as0"}, {"as", "as0", "as2", "a", "c", "b"}}
	var first obs
	for k, ord := range orders {
		o := run(t, ord)
		v.N++
		if o.perr != nil {
			return &core.Verdict{Infra: "rendered modules do not parse: " + o.perr.Error() + "\n" + text}
		}
		if c.Err != (o.errs > 0) {
			if c.Err {
				return fail("undefined-base-or-cycle-accepted", "the specification reports an undefined base or a derivation cycle, Process returned no error")
			}
			return fail("valid-derivation-rejected", "the specification accepts, Process returned %d errors", o.errs)
		}
		if c.Err {
			return v
		}
		if k == 0 {
			first = o
			want := map[string][]string{}
			for _, x := range c.Values {
				var s []string
				for _, y := range x.Vals {
					s = append(s, y.String())
				}
				sort.Strings(s)
				want[x.Key.String()] = s
			}
			for idn, w := range want {
				g := strings.Fields(o.values[idn])
				gs := append([]string{}, g...)
				sort.Strings(gs)
				if strings.Join(gs, " ") != strings.Join(w, " ") {
					return fail("value-set-differs", "identity %s: specification {%s}, library [%s]", idn, strings.Join(w, " "), strings.Join(g, " "))
				}
				for i := 1; i < len(gs); i++ {
					if gs[i] == gs[i-1] {
						return fail("value-listed-twice", "identity %s: [%s]", idn, strings.Join(g, " "))
					}
				}
				// every identityref naming it sees the same list
				for leaf, r := range o.refs {
					if strings.HasSuffix(leaf, "/ref_"+strings.Replace(idn, ":", "_", 1)) && r != idn+" = "+o.values[idn] {
						return fail("identityref-differs", "leaf %s: identityref sees %q, the identity %s lists [%s]", leaf, r, idn, o.values[idn])
					}
				}
			}
			continue
		}
		for idn, s := range first.values {
			if o.values[idn] != s {
				return fail("order-varies", "identity %s lists [%s] in one run and [%s] in another (load order %v)", idn, s, o.values[idn], ord)
			}
		}
	}
	if len(c.Ids) == 4 && !c.Err && v.Class == "same-name-in-two-modules" {
		v.Sample = map[string]any{"yang": text, "values": first.values}
	}
	return v
}

func check(r *core.Run) {
	r.Rule = "A: identities in fixed slots (a:x in module a, a:y in its submodule, b:x and b:y in the imported module; thorough: c:x, c:y in a third module importing both), each present or absent with up to two bases among the other slots, itself and an undefined name (enumerated over edges, not spellings; own-module bases spelled with and without prefix); Identities.tla visits the dictionary in every order; each distinct program is rendered and processed 4 times under different load orders: error presence (undefined base, cycle), the value set of every identity, no duplicates, the list seen through every identityref leaf, and identical sequences across the 4 runs. Non-trivial = at least two identities."
	r.Exhaustive = true
	r.Assumptions = []string{"the order must be a function of the schema; which function is not prescribed, so sequences are compared between runs, sets with the specification"}
	cfgs := []string{"quick"}
	if r.Tier == "thorough" {
		cfgs = []string{"thorough", "three"}
	}
	var mu sync.Mutex
	seen := map[[20]byte]bool{}
	for _, c := range cfgs {
		r.DirectionA("ident", core.TLCOpts{Module: "MCI_" + c, Cfg: "MCI_" + c + ".cfg", Workers: 12, Timeout: 0, HeapGB: 16}, func(i int64, body string) bool {
			h := sha1.Sum([]byte(body))
			mu.Lock()
			defer mu.Unlock()
			if seen[h] {
				return false
			}
			seen[h] = true
			return true
		})
	}
	// identities whose bases arrive with a later load: the lists are those of a fresh set
	schema.SessionHistories(r, "C11", "idm")
}
