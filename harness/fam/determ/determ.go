// Package determ decides C05: for the programs of the schema spaces, every
// permutation of the load order x K repetitions must give identical results;
// error lists must be ordered and free of duplicates (ErrorsTrace.tla); the
// command-line renderings must be byte-identical from run to run.
package determ

import (
	"bytes"
	"crypto/sha1"
	"encoding/json"
	"fmt"
	"os"
	"os/exec"
	"path/filepath"
	"regexp"
	"sort"
	"strconv"
	"strings"
	"sync"

	"github.com/openconfig/goyang/pkg/yang"
	"verifharness/core"
	"verifharness/fam/schema"
	"verifharness/fam/session"
)

func init() {
	core.Register(&core.Family{Name: "determ", Exec: execCase, Classify: classify})
	core.Checks["C05"] = check
}

type cas struct {
	Prog schema.Prog `json:"prog"`
	Errs bool        `json:"errs"`
	K    int         `json:"k"`
	Cli  string      `json:"cli"`
}

func classify(kind byte, body []byte) string {
	var c cas
	if json.Unmarshal(body, &c) != nil {
		return "?"
	}
	return classOf(&c)
}

func classOf(c *cas) string {
	if c.Cli != "" {
		return "cli"
	}
	if c.Errs {
		return "program-with-errors"
	}
	return "clean-program"
}

func perms(xs []string) [][]string {
	if len(xs) <= 1 {
		return [][]string{append([]string{}, xs...)}
	}
	var out [][]string
	for i := range xs {
		rest := append(append([]string{}, xs[:i]...), xs[i+1:]...)
		for _, p := range perms(rest) {
			out = append(out, append([]string{xs[i]}, p...))
		}
	}
	return out
}

var rePos = regexp.MustCompile(`^([^:\s]+\.yang):(\d+):(\d+):`)

// loadOrders: the accepted texts of a Session history (catalogue of the session family:
// identities, typedefs, augments, submodules, two revisions of one module with an importer
// that names no revision) loaded in the given, the sorted and the reversed order.
func loadOrders(body []byte) *core.Verdict {
	var h struct {
		Expect [][]string `json:"expect"`
		Hist   []struct {
			Op   string `json:"op"`
			Text string `json:"text"`
			Ok   bool   `json:"ok"`
		} `json:"hist"`
	}
	if err := json.Unmarshal(body, &h); err != nil || len(h.Expect) == 0 {
		return &core.Verdict{Infra: "session case"}
	}
	// every text offered, the refused ones included (a source that fails to load is a source too); a text offered
	// twice counts once
	var goods []string
	seenText := map[string]bool{}
	for _, o := range h.Hist {
		// (a well-formed text refused because its module name is taken is left out: which of two such texts wins
		// does depend on the order, by the rule that the second one is rejected)
		if o.Op == "load" && !seenText[o.Text] && (o.Ok || strings.HasPrefix(o.Text, "x-")) {
			seenText[o.Text] = true
			goods = append(goods, o.Text)
		}
	}
	v := &core.Verdict{OK: true, Class: "load-order-of-texts", NT: len(goods) >= 2}
	if len(goods) < 1 {
		return v
	}
	tmp, err := os.MkdirTemp(core.Root+"/out", "det")
	if err == nil {
		defer os.RemoveAll(tmp)
		os.Chdir(tmp)
	}
	run := func(ids []string) string {
		ms := yang.NewModules()
		for _, id := range ids {
			session.LoadText(ms, id) // (a refused text is simply not part of the set)
		}
		return session.Dump(ms, ms.Process())
	}
	sorted := append([]string{}, goods...)
	sort.Strings(sorted)
	rev := append([]string{}, sorted...)
	sort.Sort(sort.Reverse(sort.StringSlice(rev)))
	first := run(goods)
	// the error list of these texts, for ErrorsTrace.tla (ordered by file, line, column as numbers; no duplicates)
	{
		ms := yang.NewModules()
		for _, id := range goods {
			session.LoadText(ms, id)
		}
		errs := ms.Process()
		files := map[string]bool{}
		var texts []string
		for _, e := range errs {
			texts = append(texts, e.Error())
			if m := rePos.FindStringSubmatch(e.Error()); m != nil {
				files[m[1]] = true
			}
		}
		var fs []string
		for f := range files {
			fs = append(fs, f)
		}
		sort.Strings(fs)
		rank := map[string]int{}
		for i, f := range fs {
			rank[f] = i + 1
		}
		ids := map[string]int{}
		list := [][]int{}
		for _, t := range texts {
			if _, ok := ids[t]; !ok {
				ids[t] = len(ids) + 1
			}
			if m := rePos.FindStringSubmatch(t); m != nil {
				l, _ := strconv.Atoi(m[2])
				cl, _ := strconv.Atoi(m[3])
				list = append(list, []int{rank[m[1]], l, cl, ids[t]})
			} else {
				list = append(list, []int{0, 0, 0, ids[t]})
			}
		}
		if len(list) > 0 {
			ev, _ := json.Marshal(map[string]any{"ev": "errors", "list": list})
			v.Events = append(v.Events, ev)
		}
	}
	// repeated runs on one set give the same outcome
	v.N++
	{
		ms := yang.NewModules()
		ok := true
		for _, id := range goods {
			if err := session.LoadText(ms, id); err != nil && !strings.HasPrefix(id, "x-") {
				ok = false
			}
		}
		if ok {
			ms.Process()
			if d := session.Dump(ms, ms.Process()); d != first {
				v.OK, v.Sig = false, "second-process-differs"
				v.Detail = fmt.Sprintf("the texts %v processed twice on one set give a different result the second time:\n%s\nversus\n%s", goods, d, first)
				return v
			}
		}
	}
	for _, ord := range [][]string{sorted, rev} {
		v.N++
		if d := run(ord); d != first {
			gl, wl := strings.Split(d, "\n"), strings.Split(first, "\n")
			diff := ""
			for i := 0; i < len(gl) || i < len(wl); i++ {
				g, w := "", ""
				if i < len(gl) {
					g = gl[i]
				}
				if i < len(wl) {
					w = wl[i]
				}
				if g != w {
					diff = fmt.Sprintf("%q versus %q", w, g)
					break
				}
			}
			v.OK, v.Sig = false, "result-depends-on-load-order"
			v.Detail = fmt.Sprintf("the same texts loaded in the order %v and in the order %v give different results: %s", goods, ord, diff)
			return v
		}
	}
	return v
}

func execCase(kind byte, body []byte) *core.Verdict {
	if bytes.Contains(body[:min(len(body), 12)], []byte(`"hist"`)) {
		return loadOrders(body)
	}
	var c cas
	if err := json.Unmarshal(body, &c); err != nil {
		return &core.Verdict{Infra: "case: " + err.Error()}
	}
	if c.Cli != "" {
		return cli(&c)
	}
	if c.K == 0 {
		c.K = 3
	}
	v := &core.Verdict{OK: true, Class: classOf(&c), NT: true}
	names := []string{}
	for n := range c.Prog.Mods {
		names = append(names, n)
	}
	sort.Strings(names)
	ps := perms(names)
	if len(ps) > 24 {
		ps = ps[:24]
	}
	first, firstOrder := "", ""
	text := ""
	for _, ord := range ps {
		for k := 0; k < c.K; k++ {
			ms, errs, perr := schema.Load(&c.Prog, ord)
			v.N++
			var d string
			if perr != nil {
				d = "load error: " + perr.Error()
			} else {
				d = session.Dump(ms, errs)
			}
			if first == "" {
				first, firstOrder = d, strings.Join(ord, ",")
				// the error list of this run, for ErrorsTrace: [file rank, line, col, text id]
				files := map[string]bool{}
				for _, e := range errs {
					if m := rePos.FindStringSubmatch(e.Error()); m != nil {
						files[m[1]] = true
					}
				}
				var fl []string
				for f := range files {
					fl = append(fl, f)
				}
				sort.Strings(fl)
				rank := map[string]int{}
				for i, f := range fl {
					rank[f] = i + 1
				}
				ids := map[string]int{}
				list := [][]int{}
				for _, e := range errs {
					s := e.Error()
					if _, ok := ids[s]; !ok {
						ids[s] = len(ids) + 1
					}
					if m := rePos.FindStringSubmatch(s); m != nil {
						l, _ := strconv.Atoi(m[2])
						cl, _ := strconv.Atoi(m[3])
						list = append(list, []int{rank[m[1]], l, cl, ids[s]})
					} else {
						list = append(list, []int{0, 0, 0, ids[s]})
					}
				}
				ev, _ := json.Marshal(map[string]any{"ev": "errors", "list": list})
				v.Events = append(v.Events, ev)
				continue
			}
			if d != first {
				if text == "" {
					var sb strings.Builder
					for _, n := range names {
						sb.WriteString(schema.RenderModule(c.Prog.Mods[n]))
					}
					text = sb.String()
				}
				gl, wl := strings.Split(d, "\n"), strings.Split(first, "\n")
				diff := ""
				for i := 0; i < len(gl) || i < len(wl); i++ {
					g, w := "", ""
					if i < len(gl) {
						g = gl[i]
					}
					if i < len(wl) {
						w = wl[i]
					}
					if g != w {
						diff = fmt.Sprintf("%q versus %q", w, g)
						break
					}
				}
				v.OK, v.Sig = false, "result-varies"
				if strings.HasPrefix(d, "errors(0)") != strings.HasPrefix(first, "errors(0)") {
					v.Sig = "error-presence-varies"
				} else if !strings.HasPrefix(first, "errors(0)") {
					v.Sig = "error-list-varies"
				}
				v.Detail = fmt.Sprintf("load order %s and load order %s (repetition %d) give different results: %s\n%s", firstOrder, strings.Join(ord, ","), k+1, diff, text)
				return v
			}
		}
	}
	return v
}

// cli runs the goyang binary several times on the program's files.
func cli(c *cas) *core.Verdict {
	v := &core.Verdict{OK: true, Class: "cli", NT: true}
	tmp, err := os.MkdirTemp(core.Root+"/out", "cli")
	if err != nil {
		return &core.Verdict{Infra: err.Error()}
	}
	defer os.RemoveAll(tmp)
	var files []string
	names := []string{}
	for n := range c.Prog.Mods {
		names = append(names, n)
	}
	sort.Strings(names)
	for _, n := range names {
		p := filepath.Join(tmp, n+".yang")
		os.WriteFile(p, []byte(schema.RenderModule(c.Prog.Mods[n])), 0o644)
		if c.Prog.Mods[n].Kind == "module" {
			files = append(files, n+".yang")
		}
	}
	if c.K == 0 {
		c.K = 4
	}
	for _, format := range []string{"tree", "types", "types --types_verbose", "types --types_debug --types_verbose"} {
		first := ""
		orders := [][]string{files}
		if len(files) > 1 {
			rev := append([]string{}, files...)
			sort.Sort(sort.Reverse(sort.StringSlice(rev)))
			orders = append(orders, rev)
		}
		for _, ord := range orders {
			for k := 0; k < c.K; k++ {
				cmd := exec.Command(c.Cli, append(append([]string{"--format"}, strings.Fields(format)...), ord...)...)
				cmd.Dir = tmp
				out, err := cmd.CombinedOutput()
				v.N++
				got := string(out)
				if err != nil {
					got += "\nexit: " + err.Error()
				}
				if first == "" {
					first = got
					continue
				}
				if got != first {
					v.OK, v.Sig = false, "cli-output-varies:"+format
					v.Detail = fmt.Sprintf("goyang --format %s %s: run %d prints\n%s\nan earlier run printed\n%s", format, strings.Join(ord, " "), k+1, clip(got), clip(first))
					return v
				}
			}
		}
	}
	return v
}

func clip(s string) string {
	if len(s) > 500 {
		return s[:500] + "..."
	}
	return s
}

func check(r *core.Run) {
	k, cliEvery := 3, 60
	cfgs := []string{"aug_quick", "aug_late", "dev2", "dev3", "uses_quick"}
	if r.Tier == "thorough" {
		k, cliEvery = 8, 10
		cfgs = append(cfgs, "aug_sub", "aug_two", "cfg", "split", "uses", "dev1")
	}
	r.Rule = fmt.Sprintf("A: every distinct program of the schema spaces %v (TLC checks Confluence over every order of the augment and deviation loops); each loaded under every permutation of its modules (up to 24) x %d repetitions in one process (Go re-randomises every map iteration): the complete observable result (error texts, module keys, every path with kind, ReadOnly, namespace, config, defaults, resolved types, identity lists) must be identical; the error list of each program is judged by ErrorsTrace.tla (ordered by file, line, column; no duplicates); for every %dth program the goyang binary built from /repo prints --format tree and --format types 4 times under two argument orders: byte-identical output. Non-trivial = every case.", cfgs, k, cliEvery)
	r.Exhaustive = false
	r.Assumptions = []string{"real map-iteration orders are sampled by repetition, not enumerated (a two-way tie is missed with probability 2^-(runs-1) per program; ties recur in hundreds of programs)", "identity and registry order-independence are decided by C11 and C13"}
	// the goyang binary, from /repo's working tree
	bin := r.Out + "/goyang"
	cmd := exec.Command("go", "build", "-o", bin, ".")
	cmd.Dir = core.RepoDir
	cmd.Env = append(os.Environ(), "GOFLAGS=-mod=mod", "GOPROXY=off", "GOSUMDB=off", "GOTOOLCHAIN=local")
	if b, err := cmd.CombinedOutput(); err != nil {
		r.Infra("goyang does not build: " + err.Error() + " " + string(b))
		bin = ""
	}
	col := core.NewCollector()
	var mu sync.Mutex
	seen := map[[20]byte]bool{}
	var cliCases [][]byte
	n := 0
	for _, cfg := range cfgs {
		core.CaseSuffix = fmt.Sprintf(`,"k":%d}`, k)
		r.DirectionAC("determ", core.TLCOpts{Module: "MCS_" + cfg, Cfg: "MCS_" + cfg + ".cfg", Workers: 12, HeapGB: 16, Timeout: 0}, func(i int64, body string) bool {
			j := strings.Index(body, `,"errs":`)
			if j < 0 {
				return false
			}
			h := sha1.Sum([]byte(body[:j]))
			mu.Lock()
			defer mu.Unlock()
			if seen[h] {
				return false
			}
			seen[h] = true
			n++
			if bin != "" && n%cliEvery == 0 {
				cliCases = append(cliCases, []byte(body[:len(body)-1]+`,"cli":"`+bin+`"}`))
			}
			return true
		}, col)
	}
	core.CaseSuffix = ""
	// the texts of the Session catalogue (incl. two revisions of one module): every load-only history
	r.DirectionAC("determ", core.TLCOpts{Module: "MCSession", Cfg: "MCSession_loads.cfg", Workers: 12, HeapGB: 16, Timeout: 0}, func(i int64, body string) bool {
		return strings.Count(body, `"op":"process"`) == 1 && strings.Count(body, `"ok":true,"op":"load"`) >= 2
	}, col)
	// two revisions of a module and of its importer, pinned to each other: every order of the four loads
	r.DirectionAC("determ", core.TLCOpts{Module: "MCSession", Cfg: "MCSession_loads4.cfg", Workers: 12, HeapGB: 16, Timeout: 0}, func(i int64, body string) bool {
		return strings.Count(body, `"op":"process"`) == 1 && strings.Count(body, `"ok":true,"op":"load"`) >= 3
	}, col)
	for _, lc := range []string{"MCSession_loads2.cfg", "MCSession_loads3.cfg"} {
		r.DirectionAC("determ", core.TLCOpts{Module: "MCSession", Cfg: lc, Workers: 12, HeapGB: 16, Timeout: 0}, func(i int64, body string) bool {
			return strings.Count(body, `"op":"process"`) == 1 && strings.Count(body, `"ok":true,"op":"load"`) >= 1
		}, col)
	}
	r.ValidateTrace("determ", col, core.TLCOpts{Module: "ErrorsTrace", Cfg: "ErrorsTrace.cfg", Timeout: 0})
	if bin != "" {
		// two revisions of one module on the command line: the rendering is that of the latest, in every run
		leaf := func(n string) schema.Stmt {
			return schema.Stmt{Kw: "leaf", Arg: json.RawMessage(`"` + n + `"`), Kids: []schema.Stmt{{Kw: "type", Arg: json.RawMessage(`"string"`), Kids: []schema.Stmt{}}}}
		}
		mk := func(name, rev string, imports map[string]string, body ...schema.Stmt) schema.Module {
			return schema.Module{Name: name, Kind: "module", Pfx: name, Ns: "urn:" + name, Rev: rev, Imports: imports, Includes: []string{}, Body: body}
		}
		two := cas{K: 8, Cli: bin, Prog: schema.Prog{Mods: map[string]schema.Module{
			"bb@2020-01-01": mk("bb", "2020-01-01", map[string]string{}, leaf("old")),
			"bb@2021-01-01": mk("bb", "2021-01-01", map[string]string{}, leaf("new")),
			"ib":            mk("ib", "", map[string]string{"bb": "bb"}, leaf("l")),
		}}}
		b, _ := json.Marshal(two)
		cliCases = append(cliCases, b)
		// types that are told apart only by where they are defined: same name, kind and restriction in three modules and
		// in an inner scope; every rendering (plain, debug, verbose) lists them in the same order in every run
		st := func(kw, arg string, kids ...schema.Stmt) schema.Stmt {
			if kids == nil {
				kids = []schema.Stmt{}
			}
			return schema.Stmt{Kw: kw, Arg: json.RawMessage(fmt.Sprintf("%q", arg)), Kids: kids}
		}
		percent := func() schema.Stmt { return st("typedef", "percent", st("type", "uint8", st("range", "0..100"))) }
		use := func(n string) schema.Stmt { return st("leaf", n, st("type", "percent")) }
		same := cas{K: 12, Cli: bin, Prog: schema.Prog{Mods: map[string]schema.Module{
			"ta": mk("ta", "", map[string]string{}, percent(), use("la"), st("container", "inner", percent(), use("li"))),
			"tb": mk("tb", "", map[string]string{}, percent(), use("lb"), st("leaf", "anon", st("type", "uint8", st("range", "0..100")))),
			"tc": mk("tc", "", map[string]string{}, percent(), use("lc"), st("leaf", "anon2", st("type", "uint8", st("range", "0..100")))),
		}}}
		b, _ = json.Marshal(same)
		cliCases = append(cliCases, b)
	}
	// typedef chains with cycles and unknown bases: the same error list and the same type in every run
	schema.C05Types(r)
	// identity lists: the same sequences in every run and load order
	schema.C05Identities(r)
	if len(cliCases) > 0 {
		r.SubmitAll("determ", 'A', cliCases)
		r.Extra["cli_programs"] = len(cliCases)
	}
}
