// Package registry binds Registry.tla (C13) to Modules.Parse / Read /
// FindModule / findFile.
package registry

import (
	"encoding/json"
	"fmt"
	"os"
	"path/filepath"
	"sort"
	"strings"

	"github.com/openconfig/goyang/pkg/yang"
	"verifharness/core"
	"verifharness/fam/schema"
	"verifharness/fam/text"
)

func init() {
	core.Register(&core.Family{Name: "registry", Exec: exec, Classify: classify})
	schema.C13Registry = Check
	schema.RegistryReg = RegOnly
	schema.RegistryFs = FsOnly
	text.Files = FsOnly
}

type desc struct {
	Name string `json:"name"`
	Revs []int  `json:"revs"`
	Tag  string `json:"tag"`
}
type file struct {
	Mod string `json:"mod"`
	Rev int    `json:"rev"`
	Ext string `json:"ext"`
}
type smap map[string]string

func (m *smap) UnmarshalJSON(b []byte) error {
	if len(b) > 0 && b[0] == '[' {
		// a function with domain 0..n serialises as an array
		var a []string
		if err := json.Unmarshal(b, &a); err != nil {
			return err
		}
		*m = smap{}
		for i, v := range a {
			(*m)[fmt.Sprint(i)] = v
		}
		return nil
	}
	var x map[string]string
	if err := json.Unmarshal(b, &x); err != nil {
		return err
	}
	*m = x
	return nil
}

type cas struct {
	Mode    string   `json:"mode"`
	Loads   []desc   `json:"loads"`
	Oks     []bool   `json:"oks"`
	Bare    smap     `json:"bare"`
	Imports smap     `json:"imports"`
	Layout  [][]file `json:"layout"`
	Want    struct {
		Mod string `json:"mod"`
		Rev int    `json:"rev"`
	} `json:"want"`
	Chosen struct {
		Dir  int  `json:"dir"`
		File file `json:"file"`
	} `json:"chosen"`
}

func date(r int) string { return fmt.Sprintf("2020-01-%02d", r) }

func latest(d desc) int {
	m := 0
	for _, r := range d.Revs {
		if r > m {
			m = r
		}
	}
	return m
}

func classOf(c *cas) string {
	if c.Mode == "fs" {
		return "find-file"
	}
	seenRev := map[string]bool{}
	for _, d := range c.Loads {
		if latest(d) == 0 && seenRev[d.Name] {
			return "revisionless-module-offered-after-a-revisioned-one"
		}
		if latest(d) > 0 {
			seenRev[d.Name] = true
		}
	}
	return "registry"
}

func classify(kind byte, body []byte) string {
	var c cas
	if kind != 'A' || json.Unmarshal(body, &c) != nil {
		return "generated"
	}
	return classOf(&c)
}

func moduleText(d desc) string {
	var sb strings.Builder
	fmt.Fprintf(&sb, "module %s { namespace \"urn:%s\"; prefix %s; description %q;\n", d.Name, d.Name, d.Name, d.Tag)
	revs := append([]int{}, d.Revs...)
	sort.Sort(sort.Reverse(sort.IntSlice(revs)))
	if len(revs) > 1 && len(d.Tag)%2 == 1 {
		sort.Ints(revs) // the revision statements may be written in any order: this text has the oldest first
	}
	for _, r := range revs {
		fmt.Fprintf(&sb, "  revision %s;\n", date(r))
	}
	fmt.Fprintf(&sb, "  container c { leaf x { type string; default %q; } }\n", d.Tag)
	sb.WriteString("}\n")
	return sb.String()
}

func tagOf(m *yang.Module) string {
	if m == nil {
		return "none"
	}
	if m.Description == nil {
		return "?"
	}
	return m.Description.Name
}

func exec(kind byte, body []byte) *core.Verdict {
	if kind == 'B' {
		return &core.Verdict{OK: true, Out: true}
	}
	var c cas
	if err := json.Unmarshal(body, &c); err != nil {
		return &core.Verdict{Infra: "case: " + err.Error()}
	}
	if c.Mode == "fs" {
		return findFile(&c)
	}
	v := &core.Verdict{OK: true, Class: classOf(&c), NT: len(c.Loads) >= 2}
	var hist []string
	fail := func(sig, f string, a ...any) *core.Verdict {
		v.OK, v.Sig, v.Detail = false, sig, fmt.Sprintf(f, a...)+"\nloads: "+strings.Join(hist, ", ")
		return v
	}
	// an empty current directory, so that nothing is fetched from the file system
	tmp, err := os.MkdirTemp(core.Root+"/out", "reg")
	if err != nil {
		return &core.Verdict{Infra: err.Error()}
	}
	defer os.RemoveAll(tmp)
	os.Chdir(tmp)
	ms := yang.NewModules()
	for i, d := range c.Loads {
		hist = append(hist, d.Tag)
		err := ms.Parse(moduleText(d), fmt.Sprintf("%s-%d.yang", d.Tag, i))
		if (err == nil) != c.Oks[i] {
			if c.Oks[i] {
				return fail("accepted-text-rejected", "load #%d (%s): the specification accepts (no loaded module has this name and latest revision), the library says %v", i+1, d.Tag, err)
			}
			return fail("duplicate-accepted", "load #%d (%s): same name and latest revision as an accepted module, the library accepted it", i+1, d.Tag)
		}
	}
	for _, n := range []string{"a", "b"} {
		if got := tagOf(ms.Modules[n]); got != c.Bare[n] {
			return fail("bare-name-differs", "the bare name %s denotes %s, specification %s", n, got, c.Bare[n])
		}
	}
	// imports of a with and without revision-date
	for r, want := range c.Imports {
		rd := ""
		if r != "0" {
			var ri int
			fmt.Sscan(r, &ri)
			rd = fmt.Sprintf(" revision-date %s;", date(ri))
		}
		// the importer also augments and deviates a: paths under the prefix reach the tree of the module the import denotes
		if err := ms.Parse(fmt.Sprintf("module i%s { namespace \"urn:i%s\"; prefix i%s; import a { prefix a;%s }\n augment \"/a:c\" { leaf from-i%s { type string; } }\n deviation \"/a:c/a:x\" { deviate replace { default \"dev-i%s\"; } }\n}", r, r, r, rd, r, r), "i"+r+".yang"); err != nil {
			return &core.Verdict{Infra: "importer does not parse: " + err.Error()}
		}
		_ = want
	}
	perrs := ms.Process()
	allBound := true
	for _, want := range c.Imports {
		if want == "none" {
			allBound = false
		}
	}
	if allBound && len(perrs) == 0 {
		byTag := map[string]*yang.Module{}
		for _, m := range ms.Modules {
			if m.Name == "a" {
				byTag[tagOf(m)] = m
			}
		}
		targeted := map[string][]string{}
		for r, want := range c.Imports {
			targeted[want] = append(targeted[want], "dev-i"+r)
		}
		for r, want := range c.Imports {
			tm, im := byTag[want], ms.Modules["i"+r]
			if tm == nil || im == nil {
				continue
			}
			tc := yang.ToEntry(tm).Dir["c"]
			if got := yang.ToEntry(im).Find("/a:c"); got != tc {
				return fail("path-reaches-another-revision", "from importer i%s (import of a with revision-date %s, denoting %s) Find(\"/a:c\") returns %v, not the container of %s", r, r, want, got != nil, want)
			}
			if tc == nil || tc.Dir["from-i"+r] == nil {
				return fail("augment-lands-in-another-revision", "the augment of importer i%s (import denoting %s) is not in the tree of %s", r, want, want)
			}
		}
		for tag, m := range byTag {
			x := yang.ToEntry(m).Dir["c"].Dir["x"]
			got := strings.Join(x.Default, ",")
			ok := got == tag && len(targeted[tag]) == 0
			for _, d := range targeted[tag] {
				ok = ok || got == d
			}
			if !ok {
				return fail("deviation-lands-in-another-revision", "leaf x of %s has default %q; deviations aimed at it: %v", tag, got, targeted[tag])
			}
			for n := range yang.ToEntry(m).Dir["c"].Dir {
				if strings.HasPrefix(n, "from-i") {
					found := false
					for _, d := range targeted[tag] {
						found = found || strings.TrimPrefix(d, "dev-") == strings.TrimPrefix(n, "from-")
					}
					if !found {
						return fail("augment-lands-in-another-revision", "the tree of %s holds %s although that importer's import denotes another module", tag, n)
					}
				}
			}
		}
	}
	for r, want := range c.Imports {
		im := ms.Modules["i"+r]
		got := "none"
		if im != nil && len(im.Import) == 1 {
			got = tagOf(im.Import[0].Module)
		}
		if got != want {
			return fail("import-binding-differs", "import of a with revision-date %s binds to %s, specification %s", r, got, want)
		}
	}
	if len(c.Loads) == 3 && c.Loads[0].Tag == "a-r2" && c.Loads[1].Tag == "a-r1" {
		v.Sample = map[string]any{"loads": hist, "accepted": c.Oks, "bare": c.Bare, "imports": c.Imports}
	}
	return v
}

func fname(f file) string {
	switch {
	case f.Rev == 0:
		return f.Mod + "." + f.Ext
	case f.Rev == 9:
		return f.Mod + "@bad." + f.Ext
	}
	return f.Mod + "@" + date(f.Rev) + "." + f.Ext
}

func findFile(c *cas) *core.Verdict {
	v := &core.Verdict{OK: true, Class: "find-file", NT: true}
	tmp, err := os.MkdirTemp(core.Root+"/out", "fs")
	if err != nil {
		return &core.Verdict{Infra: err.Error()}
	}
	defer os.RemoveAll(tmp)
	var shown []string
	dirs := []string{"cwd", "dir1", "dir2"}
	for k, d := range c.Layout {
		dp := filepath.Join(tmp, dirs[k])
		os.MkdirAll(dp, 0o755)
		var names []string
		for _, f := range d {
			marker := dirs[k] + "/" + fname(f)
			rev := ""
			if f.Rev >= 1 && f.Rev <= 8 {
				rev = " revision " + date(f.Rev) + ";"
			}
			text := fmt.Sprintf("module %s { namespace \"urn:%s\"; prefix %s; description %q;%s }\n", f.Mod, f.Mod, f.Mod, marker, rev)
			os.WriteFile(filepath.Join(dp, fname(f)), []byte(text), 0o644)
			names = append(names, fname(f))
		}
		sort.Strings(names)
		shown = append(shown, dirs[k]+"={"+strings.Join(names, " ")+"}")
	}
	os.Chdir(filepath.Join(tmp, "cwd"))
	ms := yang.NewModules()
	ms.AddPath(filepath.Join(tmp, "dir1"), filepath.Join(tmp, "dir2"))
	name := c.Want.Mod
	if c.Want.Rev != 0 {
		name += "@" + date(c.Want.Rev)
	}
	rerr := ms.Read(name)
	got := "none"
	if rerr == nil {
		got = tagOf(ms.Modules[c.Want.Mod])
	}
	want := "none"
	if c.Chosen.Dir != 0 {
		want = dirs[c.Chosen.Dir-1] + "/" + fname(c.Chosen.File)
	}
	if rerr == nil && got == want && ms.Modules[c.Want.Mod] != nil && ms.Modules[c.Want.Mod].Source != nil {
		// positions name the file that was read
		loc := ms.Modules[c.Want.Mod].Source.Location()
		file := loc
		if k := strings.Index(loc, ".yang:"); k >= 0 {
			file = loc[:k+5]
		}
		abs, _ := filepath.Abs(file)
		wantAbs := filepath.Join(tmp, want)
		a1, _ := filepath.EvalSymlinks(abs)
		a2, _ := filepath.EvalSymlinks(wantAbs)
		if a1 == "" || a1 != a2 {
			v.OK, v.Sig = false, "position-names-another-file"
			v.Detail = fmt.Sprintf("Read(%q) opened %s but the module statement reports %s", name, want, loc)
			return v
		}
	}
	if got != want {
		v.OK, v.Sig = false, "wrong-file-chosen"
		if want == "none" {
			v.Sig = "file-of-another-module-or-no-candidate-opened"
		}
		v.Detail = fmt.Sprintf("Read(%q) with %s and path dir1:dir2 opened %s (%v), the specification chooses %s", name, strings.Join(shown, " "), got, rerr, want)
	}
	if c.Chosen.Dir == 2 && c.Chosen.File.Rev == 2 && len(c.Layout[1]) >= 4 {
		v.Sample = map[string]any{"layout": shown, "read": name, "chosen": want}
	}
	return v
}

// Check is the registry / file-choice part of C13 (the submodule part is in the schema family).
// RegOnly / FsOnly: the same cases under another property (C08, C17: what a prefix reaches; C16: the file name in positions)
func RegOnly(r *core.Run) {
	r.DirectionA("registry", core.TLCOpts{Module: "MCRegistry", Cfg: "MCRegistry_quick.cfg", Workers: 12}, func(i int64, body string) bool {
		return strings.Contains(body, `"mode":"reg"`)
	})
}
func FsOnly(r *core.Run) {
	r.DirectionA("registry", core.TLCOpts{Module: "MCRegistry", Cfg: "MCRegistry_quick.cfg", Workers: 12}, func(i int64, body string) bool {
		return strings.Contains(body, `"mode":"fs"`)
	})
}

func Check(r *core.Run) {
	mod, cfg := "MCRegistry", "MCRegistry_quick.cfg"
	if r.Tier == "thorough" {
		mod, cfg = "MCRegistryT", "MCRegistryT.cfg"
	}
	r.DirectionA("registry", core.TLCOpts{Module: mod, Cfg: cfg, Workers: 12}, nil)
}
