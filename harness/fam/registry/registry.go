// Package registry binds Registry.tla (C13) to Modules.Parse / Read /
// FindModule / findFile.
package registry

import (
	"encoding/json"
	"fmt"
	"math/rand"
	"os"
	"path/filepath"
	"sort"
	"strings"

	"github.com/openconfig/goyang/pkg/yang"
	"verifharness/core"
	"verifharness/fam/schema"
	"verifharness/fam/text"
)

func init() {
	core.Register(&core.Family{Name: "registry", Exec: exec, Classify: classify})
	schema.C13Registry = Check
	schema.RegistryReg = RegOnly
	schema.RegistryHeaps = RegHeaps
	schema.RegistryFs = FsOnly
	text.Files = FsOnly
}

type desc struct {
	Name string `json:"name"`
	Revs []int  `json:"revs"`
	Tag  string `json:"tag"`
}
type file struct {
	Mod string `json:"mod"`
	Rev int    `json:"rev"`
	Ext string `json:"ext"`
}
type smap map[string]string

func (m *smap) UnmarshalJSON(b []byte) error {
	if len(b) > 0 && b[0] == '[' {
		// a function with domain 0..n serialises as an array
		var a []string
		if err := json.Unmarshal(b, &a); err != nil {
			return err
		}
		*m = smap{}
		for i, v := range a {
			(*m)[fmt.Sprint(i)] = v
		}
		return nil
	}
	var x map[string]string
	if err := json.Unmarshal(b, &x); err != nil {
		return err
	}
	*m = x
	return nil
}

type cas struct {
	// Prop: set when the cases are replayed under another property (C08, C17: where a path under a prefix leads;
	// C16: the file named in positions); what the registry itself decides (acceptance of a load, the bare name,
	// the binding of an import) is C13's business and is then executed but not compared
	Prop    string   `json:"prop"`
	Mode    string   `json:"mode"`
	Loads   []desc   `json:"loads"`
	Oks     []bool   `json:"oks"`
	Bare    smap     `json:"bare"`
	Imports smap     `json:"imports"`
	Layout  [][]file `json:"layout"`
	Want    struct {
		Mod string `json:"mod"`
		Rev int    `json:"rev"`
	} `json:"want"`
	Chosen struct {
		Dir  int  `json:"dir"`
		File file `json:"file"`
	} `json:"chosen"`
}

func date(r int) string { return fmt.Sprintf("2020-01-%02d", r) }

func latest(d desc) int {
	m := 0
	for _, r := range d.Revs {
		if r > m {
			m = r
		}
	}
	return m
}

// registryOwn: disagreements about what the registry itself decides (C13's business)
var registryOwn = map[string]bool{"valid-set-reports-errors": true, "accepted-text-rejected": true, "duplicate-accepted": true, "bare-name-differs": true, "import-binding-differs": true}

// relevant: the one disagreement of the multi-revision cases that each of the other properties speaks about
var relevant = map[string]string{"C07": "augment-lands-in-another-revision", "C08": "deviation-lands-in-another-revision",
	"C09": "type-reaches-another-revision", "C12": "attribution-fails-among-revisions", "C17": "path-reaches-another-revision"}

func classOf(c *cas) string {
	if c.Mode == "fs" {
		return "find-file"
	}
	seenRev := map[string]bool{}
	for _, d := range c.Loads {
		if latest(d) == 0 && seenRev[d.Name] {
			return "revisionless-module-offered-after-a-revisioned-one"
		}
		if latest(d) > 0 {
			seenRev[d.Name] = true
		}
	}
	return "registry"
}

func classify(kind byte, body []byte) string {
	var c cas
	if kind != 'A' || json.Unmarshal(body, &c) != nil {
		return "generated"
	}
	return classOf(&c)
}

func moduleText(d desc) string {
	var sb strings.Builder
	// every revision has an import of its own to link (module h is loaded first) and uses a grouping from there
	fmt.Fprintf(&sb, "module %s { namespace \"urn:%s\"; prefix %s; import h { prefix h; } description %q;\n", d.Name, d.Name, d.Name, d.Tag)
	revs := append([]int{}, d.Revs...)
	sort.Sort(sort.Reverse(sort.IntSlice(revs)))
	if len(revs) > 1 && len(d.Tag)%2 == 1 {
		sort.Ints(revs) // the revision statements may be written in any order: this text has the oldest first
	}
	for _, r := range revs {
		fmt.Fprintf(&sb, "  revision %s;\n", date(r))
	}
	// a choice with a shorthand member and an augment of the module's own: whichever revisions are loaded, every tree is
	// swept, gets its implicit cases and its own augments (C04)
	fmt.Fprintf(&sb, "  typedef tt { type string; units %q; }\n", d.Tag)
	fmt.Fprintf(&sb, "  container c { leaf x { type string; default %q; } choice ch { leaf sh { type string; } } uses h:hg; }\n", d.Tag)
	fmt.Fprintf(&sb, "  augment \"/%s:c\" { leaf own-aug { type string; } choice och { container oc; } }\n", d.Name)
	sb.WriteString("}\n")
	return sb.String()
}

func tagOf(m *yang.Module) string {
	if m == nil {
		return "none"
	}
	if m.Description == nil {
		return "?"
	}
	return m.Description.Name
}

func exec(kind byte, body []byte) *core.Verdict {
	if kind == 'B' {
		return genReg(body)
	}
	var c cas
	if err := json.Unmarshal(body, &c); err != nil {
		return &core.Verdict{Infra: "case: " + err.Error()}
	}
	if c.Mode == "fs" {
		return findFile(&c)
	}
	v := &core.Verdict{OK: true, Class: classOf(&c), NT: len(c.Loads) >= 2}
	var hist []string
	fail := func(sig, f string, a ...any) *core.Verdict {
		if c.Prop != "" && c.Prop != "C13" && (registryOwn[sig] || relevant[c.Prop] != sig) {
			v.Out = true // under another property only what that property claims is compared
			return v
		}
		v.OK, v.Sig, v.Detail = false, sig, fmt.Sprintf(f, a...)+"\nloads: "+strings.Join(hist, ", ")
		return v
	}
	// an empty current directory, so that nothing is fetched from the file system
	tmp, err := os.MkdirTemp(core.Root+"/out", "reg")
	if err != nil {
		return &core.Verdict{Infra: err.Error()}
	}
	defer os.RemoveAll(tmp)
	os.Chdir(tmp)
	ms := yang.NewModules()
	if err := ms.Parse(`module h { namespace "urn:h"; prefix h; grouping hg { leaf hl { type string; } } }`, "h.yang"); err != nil {
		return &core.Verdict{Infra: "helper module: " + err.Error()}
	}
	for i, d := range c.Loads {
		hist = append(hist, d.Tag)
		err := ms.Parse(moduleText(d), fmt.Sprintf("%s-%d.yang", d.Tag, i))
		if (err == nil) != c.Oks[i] {
			if c.Oks[i] {
				return fail("accepted-text-rejected", "load #%d (%s): the specification accepts (no loaded module has this name and latest revision), the library says %v", i+1, d.Tag, err)
			}
			return fail("duplicate-accepted", "load #%d (%s): same name and latest revision as an accepted module, the library accepted it", i+1, d.Tag)
		}
	}
	for _, n := range []string{"a", "b"} {
		if got := tagOf(ms.Modules[n]); got != c.Bare[n] {
			return fail("bare-name-differs", "the bare name %s denotes %s, specification %s", n, got, c.Bare[n])
		}
	}
	// the texts alone, before anybody imports a revision by its date: every revision is linked and processed
	if pre := ms.Process(); len(pre) > 0 {
		if r := fail("valid-set-reports-errors", "every load was accepted (each text imports the loaded module h and uses its grouping), Process reports %v", pre); !r.OK || r.Out {
			return r
		}
	}
	// imports of a with and without revision-date
	for r, want := range c.Imports {
		rd := ""
		if r != "0" {
			var ri int
			fmt.Sscan(r, &ri)
			rd = fmt.Sprintf(" revision-date %s;", date(ri))
		}
		// the importer also augments and deviates a: paths under the prefix reach the tree of the module the import denotes
		if err := ms.Parse(fmt.Sprintf("module i%s { namespace \"urn:i%s\"; prefix i%s; import a { prefix a;%s }\n augment \"/a:c\" { leaf from-i%s { type string; } }\n deviation \"/a:c/a:x\" { deviate replace { default \"dev-i%s\"; } }\n}", r, r, r, rd, r, r), "i"+r+".yang"); err != nil {
			return &core.Verdict{Infra: "importer does not parse: " + err.Error()}
		}
		_ = want
	}
	// two revisions of ONE importing module, each pinned to its own revision of a under the same prefix: what p:tt means
	// is a matter of the importing revision (C09: exactly the module imported under that prefix)
	pinned := c.Imports["1"] != "none" && c.Imports["2"] != "none" && c.Imports["1"] != c.Imports["2"] && (c.Prop == "" || c.Prop == "C13" || c.Prop == "C09")
	if pinned {
		for r := 1; r <= 2; r++ {
			if err := ms.Parse(fmt.Sprintf("module rimp { namespace \"urn:rimp\"; prefix rimp; import a { prefix p; revision-date %s; } revision 2040-01-0%d;\n leaf via { type p:tt; } typedef vt { type p:tt; } leaf via2 { type vt; } }", date(r), r), fmt.Sprintf("rimp-%d.yang", r)); err != nil {
				return &core.Verdict{Infra: "pinned importer does not parse: " + err.Error()}
			}
		}
	}
	perrs := ms.Process()
	if pinned && len(perrs) == 0 {
		for r := 1; r <= 2; r++ {
			m := ms.Modules[fmt.Sprintf("rimp@2040-01-0%d", r)]
			want := c.Imports[fmt.Sprint(r)]
			if m == nil {
				continue
			}
			e := yang.ToEntry(m)
			for _, ln := range []string{"via", "via2"} {
				if l := e.Dir[ln]; l == nil || l.Type == nil || l.Type.Units != want {
					got := "no type"
					if l != nil && l.Type != nil {
						got = l.Type.Units
					}
					return fail("type-reaches-another-revision", "revision 2040-01-0%d of module rimp imports a with revision-date %s as p (that is %s): its leaf %s of type p:tt has the units of %s", r, date(r), want, ln, got)
				}
			}
		}
	}
	if c.Prop == "C04" && len(perrs) == 0 {
		// the pointer graph of every tree of the set, for SchemaTrace's well-formedness predicate
		var keys []string
		for k := range ms.Modules {
			keys = append(keys, k)
		}
		sort.Strings(keys)
		roots, entries, _ := schema.Heap(ms, keys)
		ev, _ := json.Marshal(map[string]any{"ev": "heap", "roots": roots, "entries": entries, "errs": len(perrs)})
		v.Events = append(v.Events, ev)
	}
	allBound := true
	for _, want := range c.Imports {
		if want == "none" {
			allBound = false
		}
	}
	if allBound && len(perrs) > 0 {
		// every text is a valid module and every import names something loaded: each revision is linked and processed
		if r := fail("valid-set-reports-errors", "every load was accepted and every import is satisfied, Process reports %v", perrs); !r.OK || r.Out {
			return r
		}
	}
	if allBound && len(perrs) == 0 {
		byTag := map[string]*yang.Module{}
		for _, m := range ms.Modules {
			if m.Name == "a" {
				byTag[tagOf(m)] = m
			}
		}
		targeted := map[string][]string{}
		for r, want := range c.Imports {
			targeted[want] = append(targeted[want], "dev-i"+r)
		}
		for r, want := range c.Imports {
			tm, im := byTag[want], ms.Modules["i"+r]
			if tm == nil || im == nil {
				continue
			}
			tc := yang.ToEntry(tm).Dir["c"]
			if got := yang.ToEntry(im).Find("/a:c"); got != tc {
				return fail("path-reaches-another-revision", "from importer i%s (import of a with revision-date %s, denoting %s) Find(\"/a:c\") returns %v, not the container of %s", r, r, want, got != nil, want)
			}
			if tc == nil || tc.Dir["from-i"+r] == nil {
				return fail("augment-lands-in-another-revision", "the augment of importer i%s (import denoting %s) is not in the tree of %s", r, want, want)
			}
		}
		// C12: whichever revisions are loaded, a node of module a's text belongs to module a, a grafted one to its importer
		for tag, m := range byTag {
			cc := yang.ToEntry(m).Dir["c"]
			for n, ch := range cc.Dir {
				want := "a"
				if strings.HasPrefix(n, "from-") {
					want = strings.TrimPrefix(n, "from-")
				}
				im, ierr := ch.InstantiatingModule()
				ns := ""
				if v := ch.Namespace(); v != nil {
					ns = v.Name
				}
				if ierr != nil || im != want || ns != "urn:"+want {
					return fail("attribution-fails-among-revisions", "node c/%s in the tree of %s: InstantiatingModule() = %q, %v; Namespace() = %q; the text that placed it is module %s", n, tag, im, ierr, ns, want)
				}
			}
		}
		for tag, m := range byTag {
			x := yang.ToEntry(m).Dir["c"].Dir["x"]
			got := strings.Join(x.Default, ",")
			ok := got == tag && len(targeted[tag]) == 0
			for _, d := range targeted[tag] {
				ok = ok || got == d
			}
			if !ok {
				return fail("deviation-lands-in-another-revision", "leaf x of %s has default %q; deviations aimed at it: %v", tag, got, targeted[tag])
			}
			for n := range yang.ToEntry(m).Dir["c"].Dir {
				if strings.HasPrefix(n, "from-i") {
					found := false
					for _, d := range targeted[tag] {
						found = found || strings.TrimPrefix(d, "dev-") == strings.TrimPrefix(n, "from-")
					}
					if !found {
						return fail("augment-lands-in-another-revision", "the tree of %s holds %s although that importer's import denotes another module", tag, n)
					}
				}
			}
		}
	}
	for r, want := range c.Imports {
		im := ms.Modules["i"+r]
		got := "none"
		if im != nil && len(im.Import) == 1 {
			got = tagOf(im.Import[0].Module)
		}
		if got != want {
			return fail("import-binding-differs", "import of a with revision-date %s binds to %s, specification %s", r, got, want)
		}
	}
	if len(c.Loads) == 3 && c.Loads[0].Tag == "a-r2" && c.Loads[1].Tag == "a-r1" {
		v.Sample = map[string]any{"loads": hist, "accepted": c.Oks, "bare": c.Bare, "imports": c.Imports}
	}
	return v
}

func fname(f file) string {
	switch {
	case f.Rev == 0:
		return f.Mod + "." + f.Ext
	case f.Rev == 9:
		return f.Mod + "@bad." + f.Ext
	}
	return f.Mod + "@" + date(f.Rev) + "." + f.Ext
}

func findFile(c *cas) *core.Verdict {
	v := &core.Verdict{OK: true, Class: "find-file", NT: true}
	tmp, err := os.MkdirTemp(core.Root+"/out", "fs")
	if err != nil {
		return &core.Verdict{Infra: err.Error()}
	}
	defer os.RemoveAll(tmp)
	var shown []string
	dirs := []string{"cwd", "dir1", "dir2"}
	for k, d := range c.Layout {
		dp := filepath.Join(tmp, dirs[k])
		os.MkdirAll(dp, 0o755)
		var names []string
		for _, f := range d {
			marker := dirs[k] + "/" + fname(f)
			rev := ""
			if f.Rev >= 1 && f.Rev <= 8 {
				rev = " revision " + date(f.Rev) + ";"
			}
			text := fmt.Sprintf("module %s { namespace \"urn:%s\"; prefix %s; description %q;%s }\n", f.Mod, f.Mod, f.Mod, marker, rev)
			os.WriteFile(filepath.Join(dp, fname(f)), []byte(text), 0o644)
			names = append(names, fname(f))
		}
		sort.Strings(names)
		shown = append(shown, dirs[k]+"={"+strings.Join(names, " ")+"}")
	}
	os.Chdir(filepath.Join(tmp, "cwd"))
	ms := yang.NewModules()
	ms.AddPath(filepath.Join(tmp, "dir1"), filepath.Join(tmp, "dir2"))
	name := c.Want.Mod
	if c.Want.Rev != 0 {
		name += "@" + date(c.Want.Rev)
	}
	rerr := ms.Read(name)
	got := "none"
	if rerr == nil {
		got = tagOf(ms.Modules[c.Want.Mod])
	}
	want := "none"
	if c.Chosen.Dir != 0 {
		want = dirs[c.Chosen.Dir-1] + "/" + fname(c.Chosen.File)
	}
	if rerr == nil && got == want && ms.Modules[c.Want.Mod] != nil && ms.Modules[c.Want.Mod].Source != nil {
		// positions name the file that was read
		loc := ms.Modules[c.Want.Mod].Source.Location()
		file := loc
		if k := strings.Index(loc, ".yang:"); k >= 0 {
			file = loc[:k+5]
		}
		abs, _ := filepath.Abs(file)
		wantAbs := filepath.Join(tmp, want)
		a1, _ := filepath.EvalSymlinks(abs)
		a2, _ := filepath.EvalSymlinks(wantAbs)
		if a1 == "" || a1 != a2 {
			v.OK, v.Sig = false, "position-names-another-file"
			v.Detail = fmt.Sprintf("Read(%q) opened %s but the module statement reports %s", name, want, loc)
			return v
		}
	}
	if got != want {
		v.OK, v.Sig = false, "wrong-file-chosen"
		if want == "none" {
			v.Sig = "file-of-another-module-or-no-candidate-opened"
		}
		v.Detail = fmt.Sprintf("Read(%q) with %s and path dir1:dir2 opened %s (%v), the specification chooses %s", name, strings.Join(shown, " "), got, rerr, want)
	}
	if c.Chosen.Dir == 2 && c.Chosen.File.Rev == 2 && len(c.Layout[1]) >= 4 {
		v.Sample = map[string]any{"layout": shown, "read": name, "chosen": want}
	}
	return v
}

// Check is the registry / file-choice part of C13 (the submodule part is in the schema family).
// RegOnly / FsOnly: the same cases under another property (C08, C17: what a prefix reaches; C16: the file name in positions)
func RegOnly(r *core.Run) {
	core.CaseSuffix = `,"prop":"` + r.ID + `"}`
	defer func() { core.CaseSuffix = "" }()
	r.DirectionA("registry", core.TLCOpts{Module: "MCRegistry", Cfg: "MCRegistry_quick.cfg", Workers: 12}, func(i int64, body string) bool {
		return strings.Contains(body, `"mode":"reg"`)
	})
}

// RegHeaps: the registry cases under C04, their pointer graphs collected for SchemaTrace
func RegHeaps(r *core.Run, col *core.Collector) {
	core.CaseSuffix = `,"prop":"C04"}`
	defer func() { core.CaseSuffix = "" }()
	r.DirectionAC("registry", core.TLCOpts{Module: "MCRegistry", Cfg: "MCRegistry_quick.cfg", Workers: 12}, func(i int64, body string) bool {
		return strings.Contains(body, `"mode":"reg"`)
	}, col)
}

func FsOnly(r *core.Run) {
	r.DirectionA("registry", core.TLCOpts{Module: "MCRegistry", Cfg: "MCRegistry_quick.cfg", Workers: 12}, func(i int64, body string) bool {
		return strings.Contains(body, `"mode":"fs"`)
	})
}

func Check(r *core.Run) {
	mod, cfg := "MCRegistry", "MCRegistry_quick.cfg"
	if r.Tier == "thorough" {
		mod, cfg = "MCRegistryT", "MCRegistryT.cfg"
	}
	r.DirectionA("registry", core.TLCOpts{Module: mod, Cfg: cfg, Workers: 12}, nil)
	// direction B: recorded histories of loads and queries, and file choices, judged step by step by RegistryTrace
	n := 400
	if r.Tier == "thorough" {
		n = 6000
	}
	r.DirectionB("registry", n, core.TLCOpts{Module: "RegistryTrace", Cfg: "RegistryTrace.cfg", HeapGB: 8})
}

// ---- direction B: recorded histories judged by RegistryTrace.tla ----------------------------

// genReg drives one Modules value through a random history of loads and queries (or, for every
// fourth trace, one file choice in a random directory layout) and records what the library said.
func genReg(body []byte) *core.Verdict {
	var q struct {
		Seed int64
		Tid  int
	}
	json.Unmarshal(body, &q)
	rng := rand.New(rand.NewSource(q.Seed*32452843 + int64(q.Tid)))
	reset, _ := json.Marshal(map[string]any{"ev": "reset", "tid": q.Tid})
	events := []json.RawMessage{reset}
	emit := func(m map[string]any) {
		b, _ := json.Marshal(m)
		events = append(events, b)
	}
	tmp, err := os.MkdirTemp(core.Root+"/out", "regb")
	if err != nil {
		return &core.Verdict{Infra: err.Error()}
	}
	defer os.RemoveAll(tmp)
	if q.Tid%4 == 0 {
		return genFs(rng, tmp, q.Tid, events)
	}
	os.Chdir(tmp) // an empty current directory: nothing is fetched from the file system
	ms := yang.NewModules()
	names := []string{"a", "b", "c"}
	class := "registry"
	nl := 3 + rng.Intn(12)
	type acc struct {
		name string
		sub  bool
		rev  int
	}
	var accepted []acc
	seenRev := map[string]bool{}
	nimp := 0
	allowNoRevAfter := rng.Intn(20) == 0 // the listed finding's pattern: kept rare, it ends the comparison of its trace
	for i := 0; i < nl; i++ {
		sub := rng.Intn(4) == 0
		n := names[rng.Intn(len(names))]
		key := n
		if sub {
			key = "s" + n // submodules live in a registry of their own; the specification sees them as further names
		}
		var revs []int
		for k := rng.Intn(4); k > 0; k-- {
			r := 1 + rng.Intn(8)
			dup := false
			for _, x := range revs {
				dup = dup || x == r
			}
			if !dup {
				revs = append(revs, r)
			}
		}
		if len(revs) == 0 && seenRev[key] {
			if !allowNoRevAfter {
				revs = []int{1 + rng.Intn(8)}
			} else {
				class = "revisionless-module-offered-after-a-revisioned-one"
			}
		}
		if len(revs) > 0 {
			seenRev[key] = true
		}
		tag := fmt.Sprintf("%s-t%d", key, i)
		var sb strings.Builder
		if sub {
			fmt.Fprintf(&sb, "submodule %s { belongs-to %s { prefix %s; } description %q;\n", key, n, n, tag)
		} else {
			fmt.Fprintf(&sb, "module %s { namespace \"urn:%s\"; prefix %s; description %q;\n", key, key, key, tag)
		}
		for _, r := range revs { // written in the order drawn: the latest need not come first
			fmt.Fprintf(&sb, "  revision %s;\n", date(r))
		}
		sb.WriteString("}\n")
		perr := ms.Parse(sb.String(), fmt.Sprintf("%s.yang", tag))
		if revs == nil {
			revs = []int{}
		}
		emit(map[string]any{"ev": "load", "name": key, "revs": revs, "tag": tag, "ok": perr == nil})
		if perr == nil {
			accepted = append(accepted, acc{key, sub, latest(desc{Revs: revs})})
		}
		// queries, now and then
		if rng.Intn(3) == 0 && len(accepted) > 0 {
			a := accepted[rng.Intn(len(accepted))]
			var m *yang.Module
			if a.sub {
				m = ms.SubModules[a.name]
			} else {
				m = ms.Modules[a.name]
			}
			emit(map[string]any{"ev": "bare", "name": a.name, "tag": tagOf(m)})
		}
		if rng.Intn(4) == 0 && len(accepted) > 0 {
			// an importer (or an including module) naming an accepted text, with or without its revision-date
			a := accepted[rng.Intn(len(accepted))]
			rev := 0
			if rng.Intn(2) == 0 {
				rev = a.rev
			}
			rd := ""
			if rev != 0 {
				rd = fmt.Sprintf(" revision-date %s;", date(rev))
			}
			nimp++
			in := fmt.Sprintf("imp%d", nimp)
			if a.sub {
				continue // an include from a module the submodule does not belong to is an error of its own: not a registry question
			}
			text := fmt.Sprintf("module %s { namespace \"urn:%s\"; prefix %s; import %s { prefix x;%s } }", in, in, in, a.name, rd)
			if err := ms.Parse(text, in+".yang"); err != nil {
				return &core.Verdict{Infra: "importer does not parse: " + err.Error()}
			}
			ms.Process()
			got := "none"
			if im := ms.Modules[in]; im != nil && len(im.Import) == 1 {
				got = tagOf(im.Import[0].Module)
			}
			emit(map[string]any{"ev": "import", "name": a.name, "rev": rev, "tag": got})
		}
	}
	for _, n := range names {
		for _, key := range []string{n, "s" + n} {
			m := ms.Modules[key]
			if strings.HasPrefix(key, "s") {
				m = ms.SubModules[key]
			}
			emit(map[string]any{"ev": "bare", "name": key, "tag": tagOf(m)})
		}
	}
	return &core.Verdict{OK: true, Class: class, NT: nl >= 4, Events: events}
}

func genFs(rng *rand.Rand, tmp string, tid int, events []json.RawMessage) *core.Verdict {
	ndirs := 2 + rng.Intn(3)
	mods := []string{"n", "nx", "n-x", "xn"}
	layout := make([][]file, ndirs)
	var dirs []string
	for k := 0; k < ndirs; k++ {
		dn := fmt.Sprintf("dir%d", k)
		if k == 0 {
			dn = "cwd"
		}
		dirs = append(dirs, dn)
		dp := filepath.Join(tmp, dn)
		os.MkdirAll(dp, 0o755)
		layout[k] = []file{}
		seen := map[string]bool{}
		for n := rng.Intn(6); n > 0; n-- {
			f := file{Mod: mods[rng.Intn(len(mods))], Rev: rng.Intn(10), Ext: "yang"}
			if rng.Intn(8) == 0 {
				f.Ext = "txt"
			}
			if rng.Intn(3) == 0 {
				f.Mod = "n"
			}
			if seen[fname(f)] {
				continue
			}
			seen[fname(f)] = true
			layout[k] = append(layout[k], f)
			rev := ""
			if f.Rev >= 1 && f.Rev <= 8 {
				rev = " revision " + date(f.Rev) + ";"
			}
			text := fmt.Sprintf("module %s { namespace \"urn:%s\"; prefix p; description %q;%s }\n", f.Mod, f.Mod, dn+"/"+fname(f), rev)
			os.WriteFile(filepath.Join(dp, fname(f)), []byte(text), 0o644)
		}
	}
	os.Chdir(filepath.Join(tmp, "cwd"))
	ms := yang.NewModules()
	for _, d := range dirs[1:] {
		ms.AddPath(filepath.Join(tmp, d))
	}
	want := struct {
		Mod string `json:"mod"`
		Rev int    `json:"rev"`
	}{Mod: "n"}
	if rng.Intn(3) == 0 {
		want.Rev = 1 + rng.Intn(8)
	}
	name := want.Mod
	if want.Rev != 0 {
		name += "@" + date(want.Rev)
	}
	rerr := ms.Read(name)
	chosen := map[string]any{"dir": 0, "file": file{}}
	if rerr == nil {
		got := tagOf(ms.Modules[want.Mod])
		for k, d := range layout {
			for _, f := range d {
				if dirs[k]+"/"+fname(f) == got {
					chosen = map[string]any{"dir": k + 1, "file": f}
				}
			}
		}
		if chosen["dir"] == 0 {
			chosen = map[string]any{"dir": -1, "file": file{Mod: got}} // something the layout does not hold
		}
	}
	b, _ := json.Marshal(map[string]any{"ev": "findfile", "layout": layout, "want": want, "chosen": chosen})
	events = append(events, b)
	return &core.Verdict{OK: true, Class: "find-file", NT: true, Events: events}
}
