// Package ast binds Ast.tla (C03, and the blame part of C16) to the AST
// builder behind Modules.Parse.
package ast

import (
	"encoding/json"
	"fmt"
	"math/rand"
	"os"
	"reflect"
	"regexp"
	"sort"
	"strconv"
	"strings"
	"sync"

	"github.com/openconfig/goyang/pkg/yang"
	"verifharness/core"
	"verifharness/fam/text"
)

func init() {
	core.Register(&core.Family{Name: "ast", Exec: exec, Classify: classify})
	core.Checks["C03"] = check
	text.Semantic = Semantic
}

type field struct {
	Kw, Type, Mult string
	Required       bool
	RequiredFor    string
}
type built struct {
	Ok     bool            `json:"ok"`
	Fields json.RawMessage `json:"fields"`
	Exts   []int           `json:"exts"`
}
type cas struct {
	Ptype   string   `json:"ptype"`
	Pkw     string   `json:"pkw"`
	Kids    []string `json:"kids"`
	Built   built    `json:"built"`
	NFaults int      `json:"nfaults"`
	Blame   struct {
		What string `json:"what"`
		Idx  int    `json:"idx"`
	} `json:"blame"`
	Prop string `json:"prop"`
}

type step struct{ kw, typ string }

var (
	once   sync.Once
	gram   map[string][]field
	kwType = map[string]string{}
	pathTo = map[string][]step{}
)

// load reads the frozen grammar table (the same one Grammar.tla was generated from).
func load() {
	b, err := os.ReadFile(core.SpecsDir + "/grammar.json")
	if err != nil {
		panic(err)
	}
	json.Unmarshal(b, &gram)
	for _, fs := range gram {
		for _, f := range fs {
			kwType[f.Kw] = f.Type
		}
	}
	kwType["module"], kwType["submodule"] = "Module", "Module"
	pathTo["Module"] = nil
	queue := []string{"Module"}
	for len(queue) > 0 {
		t := queue[0]
		queue = queue[1:]
		fs := append([]field{}, gram[t]...)
		sort.Slice(fs, func(i, j int) bool { return fs[i].Kw < fs[j].Kw })
		for _, f := range fs {
			if _, ok := pathTo[f.Type]; !ok {
				pathTo[f.Type] = append(append([]step{}, pathTo[t]...), step{f.Kw, f.Type})
				queue = append(queue, f.Type)
			}
		}
	}
}

func hasMeta(c *cas) bool {
	for _, k := range c.Kids {
		if k == "Name" || k == "Statement" || k == "Parent" || k == "Ext" {
			return true
		}
	}
	return c.Ptype == "Top" && c.Pkw == "Name"
}

func classOf(c *cas) string {
	switch {
	case c.Ptype == "Top":
		return "top-level-" + c.Pkw
	case hasMeta(c):
		return "substatement-named-like-a-builder-field"
	case c.Blame.What == "foreign":
		return "field-required-for-the-other-kind-of-module"
	}
	return "node"
}

func classify(kind byte, body []byte) string {
	var c cas
	if kind != 'A' || json.Unmarshal(body, &c) != nil {
		return "generated"
	}
	return classOf(&c)
}

// nameOf is the argument of substatement i: odd ones end in a blank (a node's name is its
// statement's argument verbatim); argOf is its quoted spelling.
func nameOf(i int) string {
	if i%2 == 1 {
		return fmt.Sprintf("x%d ", i)
	}
	return fmt.Sprintf("x%d", i)
}
func argOf(i int) string { return fmt.Sprintf("%q", nameOf(i)) }

func minimal(kw, arg string) string {
	t := kwType[kw]
	var body []string
	for _, f := range gram[t] {
		if f.Required {
			body = append(body, minimal(f.Kw, "r"))
		}
	}
	if len(body) == 0 {
		return fmt.Sprintf("%s %s;", kw, arg)
	}
	return fmt.Sprintf("%s %s { %s }", kw, arg, strings.Join(body, " "))
}

// render puts every substatement of the node under test on a line of its own,
// indented by two blanks: substatement i is at line kidLine0+i, column 3; the
// node's own statement is at (nodeLine, nodeCol).
type rendered struct {
	text              string
	path              []step
	kidLine0          int
	nodeLine, nodeCol int
}

// sameArgs: every substatement gets the same argument (a repetition is then word for word)
var sameArgs bool

func render(c *cas) rendered {
	var kids []string
	for i, k := range c.Kids {
		a := argOf(i + 1)
		if sameArgs {
			a = "same"
		}
		if kwType[k] != "" {
			kids = append(kids, "  "+minimal(k, a))
		} else {
			kids = append(kids, fmt.Sprintf("  %s %s;", k, a))
		}
	}
	body := strings.Join(kids, "\n")
	if c.Ptype == "Top" {
		inner := ""
		if c.Pkw == "module" {
			inner = "namespace \"urn:m\"; prefix m;"
		} else if c.Pkw == "submodule" {
			inner = "belongs-to o { prefix o; }"
		} else if kwType[c.Pkw] != "" {
			return rendered{text: minimal(c.Pkw, "m") + "\n"}
		}
		return rendered{text: fmt.Sprintf("%s m { %s }\n", c.Pkw, inner)}
	}
	if c.Ptype == "Module" {
		return rendered{text: fmt.Sprintf("%s m {\n%s\n}\n", c.Pkw, body), kidLine0: 1, nodeLine: 1, nodeCol: 1}
	}
	path := pathTo[c.Ptype]
	rootKw := "module"
	for _, s := range path {
		if s.kw == "belongs-to" {
			rootKw = "submodule"
		}
	}
	// line 1: the wrappers up to and including the node's own statement; lines 2..: its substatements
	var open strings.Builder
	rr := "namespace \"urn:m\"; prefix m;"
	if rootKw == "submodule" {
		rr = "belongs-to o { prefix o; }"
		if path[0].kw == "belongs-to" {
			rr = ""
		}
	}
	fmt.Fprintf(&open, "%s m { %s ", rootKw, rr)
	for i := 0; i < len(path)-1; i++ {
		var req []string
		for _, f := range gram[path[i].typ] {
			if f.Required && f.Kw != path[i+1].kw {
				req = append(req, minimal(f.Kw, "r"))
			}
		}
		fmt.Fprintf(&open, "%s w%d { %s ", path[i].kw, i, strings.Join(req, " "))
	}
	nodeCol := len([]rune(open.String())) + 1
	fmt.Fprintf(&open, "%s t {\n", path[len(path)-1].kw)
	text := open.String() + body + "\n" + strings.Repeat("}", len(path)+1) + "\n"
	return rendered{text: text, path: path, kidLine0: 1, nodeLine: 1, nodeCol: nodeCol}
}

func childByKw(n yang.Node, kw string) []yang.Node {
	v := reflect.ValueOf(n).Elem()
	t := v.Type()
	var out []yang.Node
	for i := 0; i < t.NumField(); i++ {
		tag := strings.Split(t.Field(i).Tag.Get("yang"), ",")[0]
		if tag != kw {
			continue
		}
		f := v.Field(i)
		switch f.Kind() {
		case reflect.Ptr:
			if !f.IsNil() {
				if nn, ok := f.Interface().(yang.Node); ok {
					out = append(out, nn)
				}
			}
		case reflect.Slice:
			for j := 0; j < f.Len(); j++ {
				if nn, ok := f.Index(j).Interface().(yang.Node); ok {
					out = append(out, nn)
				}
			}
		}
	}
	return out
}

// project: field keyword -> child names in order, with marks for a wrong
// parent link, statement reference, kind or position; then the extensions.
func project(n yang.Node, r rendered) string {
	v := reflect.ValueOf(n).Elem()
	t := v.Type()
	var parts []string
	for i := 0; i < t.NumField(); i++ {
		tag := strings.Split(t.Field(i).Tag.Get("yang"), ",")[0]
		if tag == "" || tag == "Name" || tag == "Statement" || tag == "Parent" || tag == "Ext" {
			continue
		}
		var names []string
		for _, c := range childByKw(n, tag) {
			nm := c.NName()
			if c.ParentNode() != n {
				nm += "!parent"
			}
			st := c.Statement()
			if st == nil || st.Keyword != tag || st.Argument != c.NName() {
				nm += "!stmt"
			} else if idx, err := strconv.Atoi(strings.TrimSpace(strings.TrimPrefix(c.NName(), "x"))); err == nil {
				if want := fmt.Sprintf("f.yang:%d:3", r.kidLine0+idx); st.Location() != want {
					nm += "!stmtpos(" + st.Location() + ")"
				}
			}
			names = append(names, nm)
		}
		if len(names) > 0 {
			parts = append(parts, tag+"="+strings.Join(names, ","))
		}
	}
	sort.Strings(parts)
	var ex []string
	for _, e := range n.Exts() {
		ex = append(ex, e.Argument)
	}
	s := strings.Join(parts, " ") + " exts=" + strings.Join(ex, ",")
	// the node itself
	if st := n.Statement(); st == nil || st.Location() != fmt.Sprintf("f.yang:%d:%d", r.nodeLine, r.nodeCol) {
		loc := "nil"
		if st != nil {
			loc = st.Location()
		}
		s += " !nodestmt(" + loc + ")"
	}
	return s
}

var rePos = regexp.MustCompile(`^f\.yang:(-?\d+):(-?\d+):`)

func exec(kind byte, body []byte) *core.Verdict {
	once.Do(load)
	if kind == 'B' {
		return gen(body)
	}
	var c cas
	if err := json.Unmarshal(body, &c); err != nil {
		return &core.Verdict{Infra: "case: " + err.Error()}
	}
	return judge(&c)
}

func judge(c *cas) *core.Verdict {
	v := &core.Verdict{OK: true, Class: classOf(c), NT: len(c.Kids) >= 2}
	if c.Ptype != "Top" {
		if _, ok := pathTo[c.Ptype]; !ok {
			v.Out = true
			return v
		}
	}
	r := render(c)
	fail := func(sig, f string, a ...any) *core.Verdict {
		v.OK, v.Sig, v.Detail = false, sig, fmt.Sprintf(f, a...)+"\n"+r.text
		return v
	}
	ms := yang.NewModules()
	err := ms.Parse(r.text, "f.yang")
	if c.Prop == "C16" {
		// positions in build errors, single-fault nodes only
		if c.NFaults != 1 || err == nil || c.Blame.What == "dup" || c.Blame.What == "none" {
			v.NT = false
			return v
		}
		m := rePos.FindStringSubmatch(err.Error())
		if m == nil {
			v.NT = false
			return v // an error without a position claims nothing
		}
		l, _ := strconv.Atoi(m[1])
		cl, _ := strconv.Atoi(m[2])
		wl, wc := r.nodeLine, r.nodeCol
		if c.Blame.Idx > 0 {
			wl, wc = r.kidLine0+c.Blame.Idx, 3
		}
		if l != wl || cl != wc {
			sig := "blames-another-statement"
			if l == r.nodeLine && cl == r.nodeCol {
				sig = "blames-the-enclosing-statement"
			}
			return fail(sig, "single fault (%s): the error must name %d:%d, it says %q", c.Blame.What, wl, wc, err)
		}
		return v
	}
	if err != nil {
		if c.Built.Ok {
			return fail("rejects-valid", "the specification builds this node, the library reports %q", err)
		}
		// what is wrong with a node does not depend on how its substatements' arguments are spelled: rejected also
		// when all of them carry the same argument (a second occurrence is then a verbatim repetition)
		if c.Ptype != "Top" {
			sameArgs = true
			r2 := render(c)
			sameArgs = false
			if err2 := yang.NewModules().Parse(r2.text, "f.yang"); err2 == nil {
				r = r2
				return fail("accepts-invalid", "the specification rejects this node (%s), the library built it when every substatement has the same argument", c.Blame.What)
			}
			v.N = 2
		}
		return v
	}
	if !c.Built.Ok {
		return fail("accepts-invalid", "the specification rejects this node (%s), the library built it", c.Blame.What)
	}
	if c.Ptype == "Top" {
		if ms.Modules["m"] == nil && ms.SubModules["m"] == nil {
			return fail("module-not-filed", "accepted but not found under its name")
		}
		return v
	}
	var n yang.Node
	if m := ms.Modules["m"]; m != nil {
		n = m
	} else if m := ms.SubModules["m"]; m != nil {
		n = m
	} else {
		return fail("module-not-filed", "accepted but not found under its name")
	}
	for _, s := range r.path {
		cs := childByKw(n, s.kw)
		if len(cs) == 0 {
			return fail("lost-path", "wrapper %s not found in the tree", s.kw)
		}
		n = cs[len(cs)-1]
	}
	got := project(n, r)
	var fields map[string][]int
	if len(c.Built.Fields) > 0 && c.Built.Fields[0] == '{' {
		json.Unmarshal(c.Built.Fields, &fields)
	}
	var parts []string
	for k, idx := range fields {
		var names []string
		for _, i := range idx {
			names = append(names, nameOf(i))
		}
		parts = append(parts, k+"="+strings.Join(names, ","))
	}
	sort.Strings(parts)
	var ex []string
	for _, i := range c.Built.Exts {
		ex = append(ex, nameOf(i))
	}
	want := strings.Join(parts, " ") + " exts=" + strings.Join(ex, ",")
	if got != want {
		return fail("tree-differs", "specification: %s\nlibrary:       %s", want, got)
	}
	if c.Ptype == "Container" && len(c.Kids) == 2 && c.Kids[0] == "leaf" && c.Kids[1] == "ex:t" {
		v.Sample = map[string]any{"yang": r.text, "expected": want}
	}
	return v
}

// observed: the filing of the node's substatements as indices (names are x<i>), and whether
// every parent link, statement reference, position and the node's own statement are right.
func observed(n yang.Node, r rendered) (fields map[string][]int, exts []int, links bool) {
	fields, exts, links = map[string][]int{}, []int{}, true
	idxOf := func(name string) int {
		i, err := strconv.Atoi(strings.TrimSpace(strings.TrimPrefix(name, "x")))
		if err != nil {
			links = false
			return 0
		}
		return i
	}
	v := reflect.ValueOf(n).Elem()
	t := v.Type()
	for i := 0; i < t.NumField(); i++ {
		tag := strings.Split(t.Field(i).Tag.Get("yang"), ",")[0]
		if tag == "" || tag == "Name" || tag == "Statement" || tag == "Parent" || tag == "Ext" {
			continue
		}
		for _, c := range childByKw(n, tag) {
			idx := idxOf(c.NName())
			st := c.Statement()
			if c.ParentNode() != n || st == nil || st.Keyword != tag || st.Argument != c.NName() ||
				st.Location() != fmt.Sprintf("f.yang:%d:3", r.kidLine0+idx) {
				links = false
			}
			fields[tag] = append(fields[tag], idx)
		}
	}
	for _, e := range n.Exts() {
		exts = append(exts, idxOf(e.Argument))
	}
	if st := n.Statement(); st == nil || st.Location() != fmt.Sprintf("f.yang:%d:%d", r.nodeLine, r.nodeCol) {
		links = false
	}
	return
}

// gen: one wide random node (direction B), judged by AstTrace.tla.
func gen(body []byte) *core.Verdict {
	var q struct {
		Seed int64
		Tid  int
	}
	json.Unmarshal(body, &q)
	rng := rand.New(rand.NewSource(q.Seed*7919 + int64(q.Tid)))
	var types []string
	for t := range pathTo {
		if t != "Element" && t != "Value" && len(gram[t]) > 0 {
			types = append(types, t)
		}
	}
	sort.Strings(types)
	c := &cas{Ptype: types[rng.Intn(len(types))], Pkw: "-"}
	if rng.Intn(4) == 0 {
		c.Ptype = []string{"Module", "Container", "Grouping", "List"}[rng.Intn(4)] // the types with the most children
	}
	if c.Ptype == "Module" {
		c.Pkw = []string{"module", "submodule"}[rng.Intn(2)]
	}
	var many, one []string
	for _, f := range gram[c.Ptype] {
		req := f.Required || (c.Pkw != "-" && f.RequiredFor == c.Pkw)
		foreign := c.Pkw != "-" && f.RequiredFor != "" && f.RequiredFor != c.Pkw
		switch {
		case req:
			if rng.Intn(25) != 0 { // now and then a mandatory substatement is missing
				c.Kids = append(c.Kids, f.Kw)
			}
		case foreign:
		case f.Mult == "many":
			many = append(many, f.Kw)
		default:
			one = append(one, f.Kw)
		}
	}
	sort.Strings(many)
	sort.Strings(one)
	n := rng.Intn(28)
	faulty := rng.Intn(5) == 0
	used := map[string]bool{}
	for i := 0; i < n; i++ {
		switch r := rng.Intn(20); {
		case r < 5:
			c.Kids = append(c.Kids, []string{"ex:t", "ex:Name", "ex:type"}[rng.Intn(3)])
		case r < 8 && len(one) > 0:
			k := one[rng.Intn(len(one))]
			if used[k] && !faulty {
				continue
			}
			used[k] = true
			c.Kids = append(c.Kids, k)
		case r == 8 && faulty:
			c.Kids = append(c.Kids, []string{"zz", "key", "Name", "Parent"}[rng.Intn(4)])
		case len(many) > 0:
			c.Kids = append(c.Kids, many[rng.Intn(len(many))])
		}
	}
	rng.Shuffle(len(c.Kids), func(i, j int) { c.Kids[i], c.Kids[j] = c.Kids[j], c.Kids[i] })
	if c.Kids == nil {
		c.Kids = []string{}
	}
	v := &core.Verdict{OK: true, Class: "generated", NT: len(c.Kids) >= 13}
	r := render(c)
	ms := yang.NewModules()
	err := ms.Parse(r.text, "f.yang")
	ev := map[string]any{"ev": "built", "ptype": c.Ptype, "pkw": c.Pkw, "kids": c.Kids, "ok": err == nil,
		"fields": map[string][]int{}, "exts": []int{}, "links": true}
	if err == nil {
		var n yang.Node
		if m := ms.Modules["m"]; m != nil {
			n = m
		} else if m := ms.SubModules["m"]; m != nil {
			n = m
		}
		for _, s := range r.path {
			if n == nil {
				break
			}
			if cs := childByKw(n, s.kw); len(cs) > 0 {
				n = cs[len(cs)-1]
			} else {
				n = nil
			}
		}
		if n == nil {
			ev["links"] = false
		} else {
			ev["fields"], ev["exts"], ev["links"] = observed(n, r)
		}
	}
	b, _ := json.Marshal(ev)
	v.Events = append(v.Events, json.RawMessage(fmt.Sprintf(`{"ev":"reset","tid":%d}`, q.Tid)), b)
	if q.Tid <= 2 {
		v.Sample = map[string]any{"direction": "B", "yang": r.text, "built": err == nil}
	}
	return v
}

func check(r *core.Run) {
	cfg := "Ast_quick.cfg"
	if r.Tier == "thorough" {
		cfg = "Ast_thorough.cfg"
	}
	r.Rule = "A: for each of the 37 node types reachable from module (and for top-level statements of 7 kinds): every sequence of substatements up to the bound over (its legal children + an unknown keyword, two prefixed keywords, a keyword legal elsewhere, the builder's meta field names Name/Statement/Parent/Ext), each wrapped in the minimal legal path from module or submodule; parsed by Modules.Parse and projected by reflection (field -> child names in order, parent link, statement reference and position, kind, extensions) and compared with Ast.tla's outcome. B: seeded random wide nodes (up to ~30 substatements of the node type's legal children with extension statements in between, now and then a duplicate, unknown or missing one) built by the library, the observed filing judged by AstTrace.tla (built exactly when fault-free; one-to-one, source order, links). Non-trivial = at least two substatements (B: at least 13)."
	r.Exhaustive = true
	r.Assumptions = []string{"the grammar table is the frozen extraction of the pinned tree's struct tags (specs/grammar.json), so a tag that changes disagrees with it", "bounded sequences in direction A; direction B samples wide nodes"}
	core.CaseSuffix = `,"prop":"C03"}`
	r.DirectionA("ast", core.TLCOpts{Module: "Ast", Cfg: cfg, Workers: 16}, nil)
	core.CaseSuffix = ""
	nB := 600
	if r.Tier == "thorough" {
		nB = 20000
	}
	r.DirectionB("ast", nB, core.TLCOpts{Module: "AstTrace", Cfg: "AstTrace.cfg", Timeout: 0, HeapGB: 8})
}

// Semantic is the C16 part: positions named by build errors for single-fault nodes.
func Semantic(r *core.Run) {
	cfg := "Ast_quick.cfg"
	if r.Tier == "thorough" {
		cfg = "Ast_thorough.cfg"
	}
	core.CaseSuffix = `,"prop":"C16"}`
	r.DirectionA("ast", core.TLCOpts{Module: "Ast", Cfg: cfg, Workers: 16}, nil)
	core.CaseSuffix = ""
}
