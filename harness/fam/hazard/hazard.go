// Package hazard decides C01: model-generated module sets full of broken,
// cyclic and contradictory references, the text layer's strings, and mutated
// statement trees are loaded, processed and read back in isolated executor
// processes; a crash, a fatal runtime error or a timeout is the violation.
package hazard

import (
	"encoding/json"
	"fmt"
	"io"
	"math/rand"
	"os"
	"regexp"
	"sort"
	"strings"
	"sync"

	"github.com/openconfig/goyang/pkg/yang"
	"verifharness/core"
	"verifharness/fam/session"
	"verifharness/fam/text"
)

func init() {
	core.Register(&core.Family{Name: "hazard", Exec: execCase, Classify: classify, ClassifyCrashes: true})
	core.Checks["C01"] = check
	text.Resolve = Positions
}

type hz struct {
	Dim string `json:"dim"`
	Val string `json:"val"`
}
type cas struct {
	Prop    string   `json:"prop"`
	Blame   string   `json:"blame"`
	Hazards []hz     `json:"hazards"`
	Text    []string `json:"text"` // a text of the Text family (characters), loaded as a module
	Deep    int      `json:"deep"` // a text of this nesting depth (statements inside statements)
	Shape   string   `json:"shape"`
}

func classOf(c *cas) string {
	if c.Deep > 0 {
		return "deep:" + c.Shape
	}
	if c.Text != nil {
		return "text"
	}
	var s []string
	for _, h := range c.Hazards {
		s = append(s, h.Dim+"="+h.Val)
	}
	sort.Strings(s)
	if len(s) == 0 {
		return "benign"
	}
	return strings.Join(s, ",")
}

// crashers: single hazards that crashed on their own in this run (filled by the
// parent while the single-hazard programs are replayed first), so that a crash
// of a combination is attributed to the hazard that is enough to cause it.
var (
	crashMu  sync.Mutex
	crashers = map[string]bool{}
)

func classify(kind byte, body []byte) string {
	var c cas
	if kind == 'B' {
		return mutationClass(body)
	}
	if kind != 'A' || json.Unmarshal(body, &c) != nil {
		return "generated"
	}
	crashMu.Lock()
	defer crashMu.Unlock()
	if len(c.Hazards) == 1 {
		crashers[c.Hazards[0].Dim+"="+c.Hazards[0].Val] = true
	}
	var culprits []string
	for _, h := range c.Hazards {
		if crashers[h.Dim+"="+h.Val] {
			culprits = append(culprits, h.Dim+"="+h.Val)
		}
	}
	if len(culprits) > 0 {
		sort.Strings(culprits)
		return strings.Join(culprits, ",")
	}
	return classOf(&c)
}

// Render turns a hazard selection into files (name -> text) and a load order.
func Render(h map[string]string) (map[string]string, []string) {
	v := func(d string) string { return h[d] }
	ty := func(val, self string) string {
		switch val {
		case "":
			return "string"
		case "self":
			return self
		case "foreign-absent":
			return "b:nosuch"
		case "foreign-unknown-prefix":
			return "zz:t"
		}
		return val
	}
	uses := func(val, self string) string {
		switch val {
		case "":
			return ""
		case "self":
			return " uses " + self + ";"
		case "foreign-absent":
			return " uses b:nosuch;"
		}
		return " uses " + val + ";"
	}
	base := func(val, self string) string {
		switch val {
		case "":
			return ""
		case "self":
			return " base " + self + ";"
		case "unknown-prefix":
			return " base zz:i;"
		}
		return " base " + val + ";"
	}
	files := map[string]string{}
	order := []string{}
	var m strings.Builder
	m.WriteString("module m {\n  namespace \"urn:m\";\n  prefix m;\n  import b { prefix b; }\n")
	switch v("imp") {
	case "absent":
		m.WriteString("  import absent { prefix ab; }\n")
	case "self":
		m.WriteString("  import m { prefix self; }\n")
	case "a-submodule":
		m.WriteString("  import s1 { prefix sx; }\n")
	}
	needS1, needS2 := false, false
	if v("belongs2") != "" && v("incm") == "" {
		// s2 is reached through the module's own submodule: m includes s1, s1 includes s2
		m.WriteString("  include s1;\n")
		needS1 = true
	}
	if v("incm") == "" && v("belongs2") == "" && (v("incs1") != "" || v("incs2") != "") {
		// what is wrong inside a submodule matters once the module includes it
		m.WriteString("  include s1;\n")
		needS1 = true
	}
	switch v("incm") {
	case "s1":
		m.WriteString("  include s1;\n")
		needS1 = true
	case "nosuch":
		m.WriteString("  include nosuchsub;\n")
	case "s1-s2":
		m.WriteString("  include s1;\n  include s2;\n")
		needS1, needS2 = true, true
	case "itself":
		m.WriteString("  include m;\n")
	}
	if v("incs1") != "" || v("belongs") != "" || v("imp") == "a-submodule" {
		needS1 = true
	}
	if v("incs1") == "s2" || v("incs2") != "" || v("belongs2") != "" {
		needS2 = true
	}
	switch v("rev") {
	case "garbage-date":
		m.WriteString("  revision not-a-date;\n")
	case "two-same":
		m.WriteString("  revision 2020-01-01;\n  revision 2020-01-01;\n")
	case "import-by-absent-revision":
		m.WriteString("  import b2 { prefix b2; revision-date 1999-01-01; }\n")
	}
	switch v("ext") {
	case "unknown-prefix":
		m.WriteString("  zz:ext arg;\n")
	case "nested":
		m.WriteString("  extension e1 { argument a { yin-element true; } }\n  m:e1 x { m:e1 y { m:e1 z; } }\n")
	case "argument-only":
		m.WriteString("  extension e2;\n  m:e2;\n")
	}
	fmt.Fprintf(&m, "  typedef t1 { type %s; }\n  typedef t2 { type %s; }\n  typedef t3 { type %s; }\n", ty(v("td1"), "t1"), ty(v("td2"), "t2"), ty(v("td3"), "t3"))
	fmt.Fprintf(&m, "  grouping g1 { leaf g1l { type string; }%s }\n  grouping g2 { leaf g2l { type string; }%s }\n  grouping g3 { leaf g3l { type string; }%s }\n",
		uses(v("gr1"), "g1"), uses(v("gr2"), "g2"), uses(v("gr3"), "g3"))
	fmt.Fprintf(&m, "  identity i1 {%s }\n  identity i2 {%s }\n  identity i3 {%s }\n", base(v("id1"), "i1"), base(v("id2"), "i2"), base(v("id3"), "i3"))
	// the data tree
	cfg := ""
	switch v("cfgx") {
	case "garbage":
		cfg = " config maybe;"
	case "true-under-false":
		cfg = " config false;"
	}
	fmt.Fprintf(&m, "  container c {%s\n", cfg)
	switch v("meta") {
	case "":
	default:
		fmt.Fprintf(&m, "    %s x;\n", v("meta"))
	}
	inner := ""
	if v("cfgx") == "true-under-false" {
		inner = " config true;"
	}
	fmt.Fprintf(&m, "    leaf l { type t1;%s }\n    leaf-list ll { type string; }\n", inner)
	key, extra := "key k;", ""
	switch v("key") {
	case "missing-leaf":
		key = "key nokey;"
	case "empty":
		key = "key \"\";"
	case "two-keys-one-missing":
		key = "key \"k k2\";"
	}
	switch v("listx") {
	case "max-zero":
		extra = " max-elements 0;"
	case "min-garbage":
		extra = " min-elements many;"
	case "ordered-by-garbage":
		extra = " ordered-by whoever;"
	case "unique-garbage":
		extra = " unique \"../../x\";"
	}
	fmt.Fprintf(&m, "    list li { %s leaf k { type string; }%s }\n", key, extra)
	ch := "choice ch { case ca { leaf cal { type string; } } leaf sh { type string; } }"
	switch v("choice") {
	case "default-missing":
		ch = "choice ch { default nocase; case ca { leaf cal { type string; } } }"
	case "duplicate-case":
		ch = "choice ch { case ca { leaf cal { type string; } } case ca { leaf cal2 { type string; } } }"
	case "case-named-like-leaf":
		ch = "choice ch { case sh { leaf x1 { type string; } } leaf sh { type string; } }"
	case "empty":
		ch = "choice ch;"
	}
	fmt.Fprintf(&m, "    %s\n    anyxml ax;\n    container inner;\n    uses g1;\n  }\n", ch)
	rpc := "rpc r { input { leaf i { type string; } } output { leaf o { type string; } } }"
	switch v("rpcx") {
	case "two-inputs":
		rpc = "rpc r { input { leaf i { type string; } } input { leaf i2 { type string; } } }"
	case "input-uses-cycle":
		rpc = "rpc r { grouping rg { uses rg; } input { uses rg; } }"
	case "action-in-rpc":
		rpc = "rpc r { input { leaf i { type string; } } action a2; }"
	case "notification-in-rpc":
		rpc = "rpc r { input { notification nn; } }"
	}
	if v("cfgx") == "on-rpc-input" {
		rpc = "rpc r { input { leaf i { type string; config false; } } }"
	}
	fmt.Fprintf(&m, "  %s\n  notification n { leaf nl { type string; } }\n", rpc)
	lr := "path \"/m:c/m:l\";"
	switch v("leafref") {
	case "garbage":
		lr = "path \"]][[ // ::\";"
	case "up-out-of-tree":
		lr = "path \"../../../../../x\";"
	case "self":
		lr = "path \"/m:lr\";"
	case "absent":
		lr = "path \"/m:c/m:nosuch\";"
	case "into-rpc":
		lr = "path \"/m:r/m:input/m:i\";"
	case "no-path":
		lr = ""
	}
	fmt.Fprintf(&m, "  leaf lr { type leafref { %s } }\n", lr)
	un := "type union { type string; type int8; }"
	switch v("union") {
	case "empty":
		un = "type union;"
	case "of-cyclic-typedef":
		un = "type union { type t1; type t2; type t3; }"
	case "nested-empty":
		un = "type union { type union; }"
	}
	fmt.Fprintf(&m, "  leaf un { %s }\n", un)
	en := "enum a; enum b;"
	switch v("enumx") {
	case "duplicate-name":
		en = "enum a; enum a;"
	case "huge-value":
		en = "enum a { value 99999999999999999999; }"
	case "empty":
		en = ""
	case "negative-then-implicit":
		en = "enum a { value -2147483648; } enum b; enum c { value 2147483647; } enum d;"
	case "value-not-a-number":
		en = "enum a { value seven; }"
	}
	if en == "" {
		m.WriteString("  leaf en { type enumeration; }\n")
	} else {
		fmt.Fprintf(&m, "  leaf en { type enumeration { %s } }\n", en)
	}
	rg := "type int8 { range \"1..5\"; }"
	switch v("range") {
	case "bad-syntax":
		rg = "type int8 { range \"1..2..3|x\"; }"
	case "descending":
		rg = "type int8 { range \"5..1\"; }"
	case "on-string":
		rg = "type string { range \"1..5\"; }"
	case "outside-parent":
		rg = "type int8 { range \"1..500\"; }"
	case "min-only":
		rg = "type int8 { range \"min\"; }"
	case "above-the-type":
		rg = "type uint8 { range \"300..400\"; }"
	case "below-the-type":
		rg = "type int8 { range \"-400..-300\"; }"
	case "beyond-the-last-part":
		rg = "type tl { length \"2 | 12\"; } } typedef tl { type string { length \"1..3 | 7..9\"; }"
	case "in-a-gap":
		rg = "type tl { length \"5\"; } } typedef tl { type string { length \"1..3 | 7..9\"; }"
	case "dec-bad-syntax":
		rg = "type decimal64 { fraction-digits 2; range \"1.5..x\"; }"
	case "dec-too-precise":
		rg = "type decimal64 { fraction-digits 1; range \"1.25..3\"; }"
	case "dec-outside-parent":
		rg = "type decimal64 { fraction-digits 18; range \"1..10\"; }"
	case "dec-derived-outside":
		rg = "type td64 { range \"0..20\"; } } typedef td64 { type decimal64 { fraction-digits 2; range \"1..10\"; }"
	case "length-descending":
		rg = "type string { length \"5..1\"; }"
	}
	fmt.Fprintf(&m, "  leaf rg { %s }\n", rg)
	ir := "type identityref { base i1; }"
	switch v("idref") {
	case "no-base":
		ir = "type identityref;"
	case "base-absent":
		ir = "type identityref { base nosuch; }"
	case "base-unknown-prefix":
		ir = "type identityref { base zz:i; }"
	case "in-typedef-cycle":
		ir = "type tir; } typedef tir { type identityref { base i1; } default x;"
	}
	fmt.Fprintf(&m, "  leaf ir { %s }\n", ir)
	fr := "type decimal64 { fraction-digits 2; }"
	switch v("frac") {
	case "zero":
		fr = "type decimal64 { fraction-digits 0; }"
	case "nineteen":
		fr = "type decimal64 { fraction-digits 19; }"
	case "on-string":
		fr = "type string { fraction-digits 2; }"
	case "missing":
		fr = "type decimal64;"
	case "restated-in-derived":
		fr = "type td64 { fraction-digits 3; } } typedef td64 { type decimal64 { fraction-digits 2; }"
	case "sixty-four-min-max":
		fr = "type decimal64 { fraction-digits 64; range \"min..max\"; }"
	case "two-five-five-max":
		fr = "type decimal64 { fraction-digits 255; range \"max\"; }"
	case "forty":
		fr = "type decimal64 { fraction-digits 40; }"
	case "huge":
		fr = "type decimal64 { fraction-digits 18446744073709551617; range \"min..0\"; }"
	}
	fmt.Fprintf(&m, "  leaf dc { %s }\n", fr)
	target := map[string]string{
		"container": "/m:c", "list": "/m:c/m:li", "leaf": "/m:c/m:l", "leaf-list": "/m:c/m:ll", "choice": "/m:c/m:ch", "case": "/m:c/m:ch/m:ca",
		"rpc": "/m:r", "input": "/m:r/m:input", "output": "/m:r/m:output", "notification": "/m:n", "anyxml": "/m:c/m:ax", "absent": "/m:c/m:nosuch",
		"unprefixed": "/c/inner", "relative": "../c", "empty-path": "", "into-grouping-copy": "/m:c/m:g1l", "module-root": "/m:m",
	}
	if a := v("aug"); a != "" {
		pay := "leaf grafted { type string; }"
		switch v("augpay") {
		case "case":
			pay = "case gc { leaf gcl { type string; } }"
		case "uses-unknown":
			pay = "uses nosuchgrouping;"
		case "empty":
			pay = ""
		case "same-name-twice":
			pay = "leaf grafted { type string; } leaf grafted { type int8; }"
		case "nested-augment-target":
			pay = "container deeper; } augment \"" + target[a] + "/m:deeper\" { leaf deepest { type string; }"
		}
		fmt.Fprintf(&m, "  augment %q { %s }\n", target[a], pay)
	}
	if d := v("dev"); d != "" {
		dk := "deviate not-supported;"
		switch v("devkind") {
		case "add-default":
			dk = "deviate add { default x; }"
		case "replace-type-nosuch":
			dk = "deviate replace { type nosuch; }"
		case "delete-default":
			dk = "deviate delete { default x; }"
		case "bogus":
			dk = "deviate bogus;"
		case "add-max-on-leaf":
			dk = "deviate add { max-elements 3; }"
		case "replace-default-twice":
			dk = "deviate replace { default x; } deviate replace { default y; }"
		case "empty":
			dk = ""
		}
		fmt.Fprintf(&m, "  deviation %q { %s }\n", target[d], dk)
	}
	m.WriteString("}\n")
	main := m.String()
	switch v("top") {
	case "unknown-keyword":
		main = "foo bar;\n" + main
	case "container":
		main = "container top { leaf x { type string; } }\n" + main
	case "two-modules-same-name":
		main = main + "module m { namespace \"urn:m2\"; prefix m2; }\n"
	case "empty-text":
		files["empty.yang"] = ""
		order = append(order, "empty.yang")
	case "submodule-only":
		files["orphan.yang"] = "submodule orphan { belongs-to nobody { prefix n; } container oc; }\n"
		order = append(order, "orphan.yang")
	case "submodule-with-identity":
		files["orphan.yang"] = "submodule orphan { belongs-to nobody { prefix n; } identity a; identity b { base a; } typedef ot { type identityref { base a; } } container oc { leaf l { type identityref { base n:a; } } leaf l2 { type ot; } } }\n"
		order = append(order, "orphan.yang")
	case "only-comment":
		files["comment.yang"] = "// nothing here\n/* at all */\n"
		order = append(order, "comment.yang")
	case "leaf":
		main = "leaf stray { type string; }\n" + main
	}
	files["m.yang"] = main
	order = append(order, "m.yang")
	files["b.yang"] = "module b { namespace \"urn:b\"; prefix b; typedef t { type string; } grouping g { leaf bl { type string; } } identity i; }\n"
	order = append(order, "b.yang")
	if needS1 {
		bt := "m"
		switch v("belongs") {
		case "other":
			bt = "b"
		case "itself":
			bt = "s1"
		}
		inc := ""
		switch v("incs1") {
		case "self":
			inc = " include s1;"
		case "s2":
			inc = " include s2;"
		case "the-module":
			inc = " include m;"
		case "":
			if v("belongs2") != "" || v("incs2") != "" {
				inc = " include s2;"
			}
		}
		// (the submodule refers to a typedef, a grouping and an identity of the module it belongs to: looked up past its own includes)
		files["s1.yang"] = fmt.Sprintf("submodule s1 { belongs-to %s { prefix m; }%s container s1c { leaf x { type string; } leaf xt { type t3; } leaf xi { type identityref { base i3; } } uses g3; } grouping s1g { leaf y { type string; } } }\n", bt, inc)
		order = append(order, "s1.yang")
	}
	if needS2 {
		inc := ""
		if v("incs2") == "s1" {
			inc = " include s1;"
		}
		bt2, extra := "m", ""
		switch v("belongs2") {
		case "absent-with-identity":
			bt2, extra = "nobody", " identity s2i; identity s2j { base s2i; }"
		case "absent-with-typedef":
			bt2, extra = "nobody", " typedef s2t { type string; } leaf s2l { type s2t; }"
		case "module-with-identity":
			extra = " identity s2i; identity s2j { base m:s2i; } leaf s2r { type identityref { base s2i; } }"
		}
		files["s2.yang"] = fmt.Sprintf("submodule s2 { belongs-to %s { prefix m; }%s container s2c;%s }\n", bt2, inc, extra)
		order = append(order, "s2.yang")
	}
	return files, order
}

// Exercise loads, processes and reads back; every call must return.
func Exercise(files map[string]string, order []string) (loadErrs, procErrs int) {
	tmp, err := os.MkdirTemp(core.Root+"/out", "hz")
	if err == nil {
		defer os.RemoveAll(tmp)
		os.Chdir(tmp) // nothing to fetch from the file system
	}
	ms := yang.NewModules()
	for _, n := range order {
		if err := ms.Parse(files[n], n); err != nil {
			loadErrs++
		}
	}
	errs := ms.Process()
	procErrs = len(errs)
	for _, e := range errs {
		_ = e.Error()
	}
	ReadBack(ms)
	// a second run on the same set, as a long-lived program would do
	ms.Process()
	ReadBack(ms)
	return
}

// ReadBack touches everything a caller may read after Process.
func ReadBack(ms *yang.Modules) {
	seen := map[*yang.Entry]bool{}
	var walk func(e *yang.Entry, depth int)
	walk = func(e *yang.Entry, depth int) {
		if e == nil || seen[e] || depth > 40 {
			return
		}
		seen[e] = true
		e.ReadOnly()
		e.Namespace()
		root := e
		for root.Parent != nil {
			root = root.Parent
		}
		if root.Node != nil { // (a detached error entry has no node at all)
			e.InstantiatingModule()
		}
		var types func(t *yang.YangType, d int)
		types = func(t *yang.YangType, d int) {
			if t == nil || d > 8 {
				return
			}
			_ = t.Range.String()
			_ = t.Length.String()
			t.Range.Validate()
			t.Equal(t.Root)
			if t.Enum != nil {
				t.Enum.Names()
				t.Enum.Values()
			}
			if t.Bit != nil {
				t.Bit.Names()
			}
			for _, u := range t.Type {
				types(u, d+1)
			}
		}
		types(e.Type, 0)
		e.DefaultValues()
		e.SingleDefaultValue()
		e.GetWhenXPath()
		e.IsLeaf()
		e.IsList()
		e.Path()
		for _, p := range []string{"..", "../..", "/m:c/m:l", "/m:r/m:input", "/m:r/m:output/m:o", "/b:nosuch", "/zz:x", "x/y", "/", ""} {
			e.Find(p)
		}
		for _, c := range e.Dir {
			walk(c, depth+1)
		}
		if e.RPC != nil {
			walk(e.RPC.Input, depth+1)
			walk(e.RPC.Output, depth+1)
		}
		for _, a := range e.Augmented {
			_ = a.Name
		}
		// entries that hang off the returned trees without being children
		for _, d := range e.Deviations {
			if d != nil {
				walk(d.Entry, depth+1)
			}
		}
		for _, a := range e.Augments {
			walk(a, depth+1)
		}
	}
	for _, mm := range []map[string]*yang.Module{ms.Modules, ms.SubModules} {
		for _, m := range mm {
			e := yang.ToEntry(m)
			e.GetErrors()
			e.Print(io.Discard)
			walk(e, 0)
			for _, g := range m.Grouping {
				walk(yang.ToEntry(g), 0)
			}
			yang.FindNode(m, "/ab:x")
			yang.FindNode(m, "/a:x")
			yang.FindNode(m, "/zz:x/y")
			yang.ChildNode(m, "x")
			for _, i := range m.Identities() {
				for _, v := range i.Values {
					_ = v.Name
				}
				i.IsDefined("x")
			}
			if m.Namespace != nil {
				ms.FindModuleByNamespace(m.Namespace.Name)
			}
			yang.FindNode(m, "/m:c/m:l")
			yang.FindNode(m, "../x")
			yang.NodePath(m)
			m.FullName()
			m.GetPrefix()
		}
	}
	ms.FindModuleByNamespace("urn:nosuch")
	ms.GetModule("m")
	ms.GetModule("nosuchmodule")
}

var rePosAny = regexp.MustCompile(`([A-Za-z0-9_.-]+\.yang):(\d+):(\d+)`)

// positions: every file:line:col that appears in an error from loading or processing must be
// the start of a statement of that file; with a blame keyword, of a statement with that keyword.
func positions(c *cas, files map[string]string, order []string) *core.Verdict {
	v := &core.Verdict{OK: true, Class: classOf(c), NT: len(c.Hazards) >= 1}
	tmp, err := os.MkdirTemp(core.Root+"/out", "hp")
	if err == nil {
		defer os.RemoveAll(tmp)
		os.Chdir(tmp)
	}
	starts := map[string]string{} // "file:line:col" -> keyword
	for _, n := range order {
		ss, err := yang.Parse(files[n], n)
		if err != nil {
			continue // syntax-level positions are the Text family's business
		}
		var walk func(s *yang.Statement)
		walk = func(s *yang.Statement) {
			starts[s.Location()] = s.Keyword
			for _, k := range s.SubStatements() {
				walk(k)
			}
		}
		for _, s := range ss {
			walk(s)
		}
	}
	ms := yang.NewModules()
	var errs []error
	for _, n := range order {
		if _, perr := yang.Parse(files[n], n); perr != nil {
			continue
		}
		if err := ms.Parse(files[n], n); err != nil {
			errs = append(errs, err)
		}
	}
	errs = append(errs, ms.Process()...)
	for _, e := range errs {
		for _, m := range rePosAny.FindAllStringSubmatch(e.Error(), -1) {
			loc := m[1] + ":" + m[2] + ":" + m[3]
			kw, ok := starts[loc]
			if !ok {
				v.OK, v.Sig = false, "position-is-no-statement-start"
				v.Detail = fmt.Sprintf("the error %q names %s, which is not the start of a statement of that file\n%s", e, loc, files[m[1]])
				return v
			}
			if c.Blame != "" && strings.HasPrefix(e.Error(), loc) && kw != c.Blame {
				// only the error's own (leading) position is held against the blame table
				v.OK, v.Sig = false, "blames-a-"+kw+"-statement"
				v.Detail = fmt.Sprintf("single fault %s: the error %q names the %s statement at %s, it must name the %s statement\n%s", classOf(c), e, kw, loc, c.Blame, files[m[1]])
				return v
			}
		}
	}
	return v
}

func execCase(kind byte, body []byte) *core.Verdict {
	if kind == 'B' {
		return mutate(body)
	}
	var c cas
	if err := json.Unmarshal(body, &c); err != nil {
		return &core.Verdict{Infra: "case: " + err.Error()}
	}
	v := &core.Verdict{OK: true, Class: classOf(&c), NT: len(c.Hazards) >= 1 || len(c.Text) >= 3}
	if c.Deep > 0 {
		// recursion that grows with the input must end in an error, not in the goroutine stack
		v.Class, v.NT = "deep:"+c.Shape, true
		var t string
		switch c.Shape {
		case "junk":
			t = strings.Repeat("a{", c.Deep)
		case "junk-closed":
			t = strings.Repeat("a {", c.Deep) + strings.Repeat("}", c.Deep)
		case "containers":
			t = "module m { namespace \"urn:m\"; prefix m;\n" + strings.Repeat("container c {", c.Deep) + " leaf l { type string; } " + strings.Repeat("}", c.Deep) + "}"
		case "groupings":
			t = "module m { namespace \"urn:m\"; prefix m;\n" + strings.Repeat("grouping g { container c {", c.Deep/2) + " leaf l { type string; } " + strings.Repeat("}}", c.Deep/2) + "}"
		case "unions":
			t = "module m { namespace \"urn:m\"; prefix m; leaf l {\n" + strings.Repeat("type union { ", c.Deep) + " type string; " + strings.Repeat("}", c.Deep) + "}}"
		case "stray-then-junk": // closing braces nobody opened, then nesting: the nesting limit must still hold
			t = strings.Repeat("}", c.Deep) + strings.Repeat("a{", c.Deep)
		case "brace-keywords": // an opening brace where a keyword must stand, then nesting
			t = strings.Repeat("a { { } ", c.Deep/2) + strings.Repeat("a{", c.Deep)
		case "failing-union-chain": // typedef tN { type union { type tN-1; type tN-1; } } over an unresolvable t0: 2N+2 lines of text
			var sb strings.Builder
			sb.WriteString("module m { namespace \"urn:m\"; prefix m;\ntypedef t0 { type nosuch; }\n")
			for i := 1; i <= c.Deep; i++ {
				fmt.Fprintf(&sb, "typedef t%d { type union { type t%d; type t%d; } }\n", i, i-1, i-1)
			}
			fmt.Fprintf(&sb, "leaf l { type t%d; }\n}", c.Deep)
			t = sb.String()
		case "failing-grouping-chain": // grouping gI { container cI { uses gI+1; } } over a leaf of an unknown type: one error, N+2 lines of text
			var sb strings.Builder
			sb.WriteString("module m { namespace \"urn:m\"; prefix m;\n")
			for i := 0; i < c.Deep; i++ {
				fmt.Fprintf(&sb, "grouping g%d { container c%d { uses g%d; } }\n", i, i, i+1)
			}
			fmt.Fprintf(&sb, "grouping g%d { leaf l { type nosuch; } }\nuses g0;\n}", c.Deep)
			t = sb.String()
		case "typedef-chain", "grouping-chain", "identity-chain": // recursion along references between SIBLINGS
			var sb strings.Builder
			sb.WriteString("module m { namespace \"urn:m\"; prefix m;\n")
			for i := 0; i < c.Deep; i++ {
				switch c.Shape {
				case "typedef-chain":
					fmt.Fprintf(&sb, "typedef t%d { type t%d; }\n", i, i+1)
				case "grouping-chain":
					fmt.Fprintf(&sb, "grouping g%d { uses g%d; }\n", i, i+1)
				case "identity-chain":
					fmt.Fprintf(&sb, "identity i%d { base i%d; }\n", i, i+1)
				}
			}
			switch c.Shape {
			case "typedef-chain":
				fmt.Fprintf(&sb, "typedef t%d { type string; }\nleaf l { type t0; }\n}", c.Deep)
			case "grouping-chain":
				fmt.Fprintf(&sb, "grouping g%d { leaf x { type string; } }\ncontainer c { uses g0; }\n}", c.Deep)
			case "identity-chain":
				fmt.Fprintf(&sb, "identity i%d;\n}", c.Deep)
			}
			t = sb.String()
		}
		Exercise(map[string]string{"t.yang": t}, []string{"t.yang"})
		return v
	}
	if c.Text != nil {
		t := strings.ReplaceAll(strings.Join(c.Text, ""), "E", "é")
		// the text alone, and wrapped so that the builder and resolver see it too
		Exercise(map[string]string{"t.yang": t}, []string{"t.yang"})
		Exercise(map[string]string{"t.yang": "module t { namespace \"urn:t\"; prefix t; " + t + " }"}, []string{"t.yang"})
		return v
	}
	h := map[string]string{}
	for _, x := range c.Hazards {
		h[x.Dim] = x.Val
	}
	files, order := Render(h)
	if c.Prop == "C16" {
		return positions(&c, files, order)
	}
	le, pe := Exercise(files, order)
	if len(c.Hazards) == 2 && c.Hazards[0].Dim == "aug" {
		v.Sample = map[string]any{"hazards": c.Hazards, "m.yang": files["m.yang"], "load_errors": le, "process_errors": pe}
	}
	// loaded in the opposite order as well: resolution must not depend on it
	rev := append([]string{}, order...)
	sort.Sort(sort.Reverse(sort.StringSlice(rev)))
	Exercise(files, rev)
	v.N = 2
	return v
}

// ---- direction B: mutation of statement trees ---------------------------------------

type node struct {
	kw, arg string
	has     bool
	kids    []*node
}

func fromStmt(s *yang.Statement) *node {
	a, has := s.Arg()
	n := &node{kw: s.Keyword, arg: a, has: has}
	for _, c := range s.SubStatements() {
		n.kids = append(n.kids, fromStmt(c))
	}
	return n
}

func (n *node) write(sb *strings.Builder, ind string) {
	sb.WriteString(ind + n.kw)
	if n.has {
		fmt.Fprintf(sb, " %q", n.arg)
	}
	if len(n.kids) == 0 {
		sb.WriteString(";\n")
		return
	}
	sb.WriteString(" {\n")
	for _, k := range n.kids {
		k.write(sb, ind+"  ")
	}
	sb.WriteString(ind + "}\n")
}

func (n *node) all(out *[]*node) {
	*out = append(*out, n)
	for _, k := range n.kids {
		k.all(out)
	}
}

func (n *node) clone() *node {
	c := &node{kw: n.kw, arg: n.arg, has: n.has}
	for _, k := range n.kids {
		c.kids = append(c.kids, k.clone())
	}
	return c
}

// mutate: a seeded sequence of tree operations (delete, duplicate, move,
// re-keyword a statement, redirect a reference) on the texts of the session
// catalogue and of a hazard program.
// buildMutation is a pure function of (seed, tid): the mutated texts, their order and the operations applied.
func buildMutation(body []byte) (map[string]string, []string, []string, []*node) {
	var q struct {
		Seed int64
		Tid  int
	}
	json.Unmarshal(body, &q)
	rng := rand.New(rand.NewSource(q.Seed*6700417 + int64(q.Tid)))
	files := map[string]string{}
	var order []string
	if rng.Intn(2) == 0 {
		for _, id := range []string{"i1", "t2", "a3", "m4", "s4"} {
			files[id+".yang"] = session.Texts[id]
			order = append(order, id+".yang")
		}
	} else {
		files, order = Render(map[string]string{"incm": "s1-s2", "aug": "container", "dev": "leaf"})
	}
	var trees []*node
	var owner []string
	for _, f := range order {
		ss, err := yang.Parse(files[f], f)
		if err != nil {
			continue
		}
		for _, s := range ss {
			trees = append(trees, fromStmt(s))
			owner = append(owner, f)
		}
	}
	kws := []string{"leaf", "container", "list", "uses", "grouping", "typedef", "type", "augment", "deviation", "deviate", "choice", "case", "rpc", "input", "identity", "base", "include", "import", "belongs-to", "key", "default", "config", "path", "range", "length", "enum", "Name", "zz:ext", "module", "submodule", "prefix"}
	args := []string{"", "x", "t1", "g", "m:c", "/t2:c", "/t:c/t:l", "..", "tt", "i:x", "self", "1..5", "not-supported", "nosuch", "a3:w"}
	nmut := 1 + rng.Intn(4)
	var ops []string
	for i := 0; i < nmut; i++ {
		var all []*node
		for _, t := range trees {
			t.all(&all)
		}
		if len(all) < 3 {
			break
		}
		a, b := all[rng.Intn(len(all))], all[rng.Intn(len(all))]
		switch rng.Intn(6) {
		case 0:
			if len(a.kids) > 0 {
				k := rng.Intn(len(a.kids))
				ops = append(ops, "delete "+a.kids[k].kw)
				a.kids = append(a.kids[:k], a.kids[k+1:]...)
			}
		case 1:
			if len(a.kids) > 0 {
				k := rng.Intn(len(a.kids))
				ops = append(ops, "duplicate "+a.kids[k].kw)
				a.kids = append(a.kids, a.kids[k].clone())
			}
		case 2:
			ops = append(ops, "graft a copy of "+b.kw+" under "+a.kw)
			a.kids = append(a.kids, b.clone())
		case 3:
			nk := kws[rng.Intn(len(kws))]
			ops = append(ops, "re-keyword "+a.kw+" -> "+nk)
			a.kw = nk
		case 4:
			na := args[rng.Intn(len(args))]
			ops = append(ops, "redirect "+a.kw+" "+a.arg+" -> "+na)
			a.arg, a.has = na, true
		default:
			ops = append(ops, "redirect "+a.kw+" to its own name / sibling")
			if len(b.kids) > 0 {
				a.arg, a.has = b.kids[0].arg, true
			}
		}
	}
	out := map[string]string{}
	for i, t := range trees {
		var sb strings.Builder
		t.write(&sb, "")
		out[owner[i]] += sb.String()
	}
	return out, order, ops, trees
}

func mutate(body []byte) *core.Verdict {
	var q struct {
		Seed int64
		Tid  int
	}
	json.Unmarshal(body, &q)
	out, order, ops, _ := buildMutation(body)
	if os.Getenv("VERIF_DUMP") != "" {
		for _, f := range order {
			fmt.Fprintf(os.Stderr, "---- %s\n%s", f, out[f])
		}
	}
	Exercise(out, order)
	v := &core.Verdict{OK: true, Class: "mutated", NT: true}
	if q.Tid <= 2 {
		v.Sample = map[string]any{"direction": "B", "mutations": ops}
	}
	return v
}

// mutationClass names the feature of a mutated set that a known finding is
// about (computed in the parent from the seed alone, without running anything
// but the statement parser on the unmutated texts).
func mutationClass(body []byte) string {
	_, _, _, trees := buildMutation(body)
	for _, t := range trees {
		for _, k := range t.kids {
			if k.kw == "uses" {
				return "mutated:uses-at-the-top-level-of-a-module"
			}
		}
	}
	return "mutated"
}

func check(r *core.Run) {
	r.Level = "exploration"
	cfg, nB := "MCHazard_quick.cfg", 3000
	textCfgs := []string{"raw4"}
	if r.Tier == "thorough" {
		cfg, nB = "MCHazard_thorough.cfg", 60000
		textCfgs = []string{"raw5", "tok5"}
	}
	r.Rule = "Every module set of the hazard space of Hazard.tla (a benign skeleton deviating in at most 2 (thorough: 3, sampled) of 33 dimensions: typedef / grouping / identity reference graphs with self, 2- and 3-cycles, dangling and foreign edges; include / belongs-to / import graphs; augment and deviation targets of every node kind, absent, unprefixed, relative and empty paths; payload and deviate variants; top-level statements that are not modules; substatements named like builder fields; leafref, choice, key, union, enum, range, rpc, extension, list, config, revision, identityref and fraction-digits oddities) is loaded in two orders, processed twice and read back (ToEntry, GetErrors, Print, Find with 10 paths from every entry, Namespace, ReadOnly, DefaultValues, FindNode, GetModule, namespace lookups) in an isolated executor with a 20 s limit; plus every text of the Text family's raw space loaded alone and wrapped in a module; plus seeded statement-tree mutations (delete, duplicate, graft, re-keyword, redirect) of good module sets; plus every history of Session.tla's quick spaces (loads of good and rejected texts, Process and queries in any order on one set). A panic, a fatal runtime error or a timeout is the violation; every other check's executions are monitored the same way (crash_monitored in their evidence). Non-trivial = at least one hazard / three characters."
	r.Exhaustive = r.Tier != "thorough"
	r.Assumptions = []string{"coverage is the model-generated space, not all byte strings; byte-level fuzzing is a different technique and is not used", "a stack of 64 MiB stands for 'unbounded recursion' (the default limit is 1 GiB)"}
	keep := func(i int64, body string) bool { return true }
	if r.Tier == "thorough" {
		k := r.Seed % 8
		keep = func(i int64, body string) bool { return strings.Count(body, `"dim"`) < 3 || i%8 == k }
		r.Extra["thorough_sampling"] = "programs with 3 hazards: index mod 8 = seed mod 8"
	}
	// single hazards first: a crash of a combination is attributed to the hazard that crashes on its own
	r.DirectionA("hazard", core.TLCOpts{Module: "MCHazard", Cfg: "MCHazard_one.cfg", Workers: 4}, nil)
	r.DirectionA("hazard", core.TLCOpts{Module: "MCHazard", Cfg: cfg, Workers: 12, HeapGB: 16, Timeout: 0}, keep)
	for _, tc := range textCfgs {
		r.DirectionA("hazard", core.TLCOpts{Module: "MCText", Cfg: "MCText_" + tc + ".cfg", Workers: 16, HeapGB: 16, Timeout: 0}, nil)
	}
	core.SubmitCollect(r, "hazard", 'B', nB, nil)
	// nesting depth: texts whose recursion depth grows with the input (harness-chosen extremes of "any byte string")
	var deep [][]byte
	for _, sh := range []string{"junk", "junk-closed", "containers", "groupings", "unions", "stray-then-junk", "brace-keywords"} {
		for _, d := range []int{300, 20000, 3000000} {
			deep = append(deep, []byte(fmt.Sprintf(`{"deep":%d,"shape":%q}`, d, sh)))
		}
	}
	// recursion along references between sibling statements (the nesting limit does not bound it)
	for _, d := range []int{300, 9000, 20000, 150000} {
		deep = append(deep, []byte(fmt.Sprintf(`{"deep":%d,"shape":"typedef-chain"}`, d)))
	}
	for _, d := range []int{300, 9000, 12000} { // (FindGrouping scans the siblings: the time is quadratic, which is not the question here)
		deep = append(deep, []byte(fmt.Sprintf(`{"deep":%d,"shape":"grouping-chain"}`, d)))
	}
	deep = append(deep, []byte(`{"deep":40,"shape":"failing-union-chain"}`)) // work must not double with every level
	deep = append(deep, []byte(`{"deep":40,"shape":"failing-grouping-chain"}`), []byte(`{"deep":400,"shape":"failing-grouping-chain"}`))
	for _, d := range []int{300, 2000} { // every identity lists all identities derived from it: the result itself is quadratic
		deep = append(deep, []byte(fmt.Sprintf(`{"deep":%d,"shape":"identity-chain"}`, d)))
	}
	r.SubmitAll("hazard", 'A', deep)
	// sequences of texts: the histories of Session.tla (loads of good and bad texts, Process, queries in any order),
	// replayed for crashes and hangs only
	core.CaseSuffix = `,"prop":"C01"}`
	for _, sc := range []string{"MCSession_quick.cfg", "MCSession_quick2.cfg", "MCSession_quick3.cfg"} {
		r.DirectionA("session", core.TLCOpts{Module: "MCSession", Cfg: sc, Workers: 12, HeapGB: 16, Timeout: 0}, nil)
	}
	core.CaseSuffix = ""
}

// Positions is the resolve-time part of C16: run over the hazard space.
func Positions(r *core.Run) {
	cfg := "MCHazard_quick.cfg"
	core.CaseSuffix = `,"prop":"C16"}`
	r.DirectionA("hazard", core.TLCOpts{Module: "MCHazard", Cfg: cfg, Workers: 12, HeapGB: 16, Timeout: 0}, nil)
	core.CaseSuffix = ""
}
