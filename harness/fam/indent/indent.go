// Package indent binds Indent.tla (C20) to pkg/indent.
package indent

import (
	"bytes"
	"encoding/json"
	"errors"
	"fmt"
	"io"
	"math/rand"
	"strings"

	"github.com/openconfig/goyang/pkg/indent"
	"verifharness/core"
)

func init() {
	core.Register(&core.Family{Name: "indent", Exec: exec, Classify: classify})
}

type step struct {
	Chunk []string `json:"chunk"`
	N     int      `json:"n"`
	Err   bool     `json:"err"`
	Sink  []string `json:"sink"`
}
type cas struct {
	Prefix  []string `json:"prefix"`
	Budget0 int      `json:"budget0"`
	Hist    []step   `json:"hist"`
}

// lw is an underlying writer that accepts n more bytes (n < 0: unlimited).
type lw struct {
	n    int
	got  []byte
	last int
}

func (w *lw) Write(b []byte) (int, error) {
	if w.n < 0 || len(b) <= w.n {
		w.got = append(w.got, b...)
		if w.n >= 0 {
			w.n -= len(b)
		}
		w.last = len(b)
		return len(b), nil
	}
	k := w.n
	w.got = append(w.got, b[:k]...)
	w.n = 0
	w.last = k
	return k, errors.New("short write")
}

func tr(ss []string) string { return strings.ReplaceAll(strings.Join(ss, ""), "N", "\n") }

func classOf(c *cas) string {
	// class of the abstract case, from its own fields only
	open := false
	for _, st := range c.Hist {
		if st.Err {
			if open && len(c.Prefix) > 0 {
				return "short-write-continuing-open-line"
			}
			return "short-write"
		}
		if len(st.Chunk) > 0 {
			open = st.Chunk[len(st.Chunk)-1] != "N"
		}
	}
	return "complete"
}

func classify(kind byte, body []byte) string {
	if kind != 'A' {
		return "generated"
	}
	var c cas
	if json.Unmarshal(body, &c) != nil {
		return "?"
	}
	return classOf(&c)
}

func exec(kind byte, body []byte) *core.Verdict {
	if kind == 'B' {
		return gen(body)
	}
	var c cas
	if err := json.Unmarshal(body, &c); err != nil {
		return &core.Verdict{Infra: "case: " + err.Error()}
	}
	v := &core.Verdict{OK: true, Class: classOf(&c), NT: len(c.Hist) > 1 || c.Budget0 >= 0}
	u := &lw{n: c.Budget0}
	w := indent.NewWriter(u, tr(c.Prefix))
	for i, st := range c.Hist {
		n, err := w.Write([]byte(tr(st.Chunk)))
		if n != st.N || (err != nil) != st.Err || string(u.got) != tr(st.Sink) {
			v.OK = false
			switch {
			case string(u.got) != tr(st.Sink):
				v.Sig = "sink-differs"
			case (err != nil) != st.Err:
				v.Sig = "error-differs"
			case n < st.N:
				v.Sig = "count-too-small"
			default:
				v.Sig = "count-too-large"
			}
			v.Detail = fmt.Sprintf("prefix=%q budget=%d write #%d %q: specification n=%d err=%v sink=%q, library n=%d err=%v sink=%q",
				tr(c.Prefix), c.Budget0, i+1, tr(st.Chunk), st.N, st.Err, tr(st.Sink), n, err, u.got)
			return v
		}
	}
	if c.Budget0 < 0 {
		// the one-shot functions on the concatenated text
		var all []byte
		for _, st := range c.Hist {
			all = append(all, tr(st.Chunk)...)
		}
		p := tr(c.Prefix)
		if s := indent.String(p, string(all)); s != string(u.got) {
			v.OK, v.Sig, v.Detail = false, "oneshot-string-differs", fmt.Sprintf("String(%q,%q)=%q, writer gave %q", p, all, s, u.got)
		}
		if s := indent.Bytes([]byte(p), all); !bytes.Equal(s, u.got) {
			v.OK, v.Sig, v.Detail = false, "oneshot-bytes-differs", fmt.Sprintf("Bytes(%q,%q)=%q, writer gave %q", p, all, s, u.got)
		}
	}
	if len(c.Hist) == 3 && c.Budget0 == 2 {
		v.Sample = map[string]any{"prefix": tr(c.Prefix), "underlying_writer_accepts": c.Budget0, "writes": c.Hist}
	}
	return v
}

func ints(b []byte) []int {
	r := make([]int, len(b))
	for i, c := range b {
		r[i] = int(c)
	}
	return r
}

// gen produces one random execution well beyond the exhaustive bounds: CR LF,
// multi-byte runes split across chunks, up to 30 chunks, a random stop point.
func gen(body []byte) *core.Verdict {
	var q struct {
		Seed int64
		Tid  int
	}
	json.Unmarshal(body, &q)
	rng := rand.New(rand.NewSource(q.Seed*1000003 + int64(q.Tid)))
	prefixes := []string{">", "  ", "// ", "\t", "é ", "#>-", "ab\n", "-", "--"}
	p := prefixes[rng.Intn(len(prefixes))]
	v := &core.Verdict{OK: true, Class: "generated", NT: true}
	emit := func(m map[string]any) {
		b, _ := json.Marshal(m)
		v.Events = append(v.Events, b)
	}
	emit(map[string]any{"ev": "reset", "tid": q.Tid, "prefix": ints([]byte(p))})
	if rng.Intn(3) == 0 {
		// nested writers: an outer indenting writer on top of an inner one, written to in any order; every other time both
		// have the same prefix (as recursive printers do)
		p2 := prefixes[rng.Intn(len(prefixes))]
		if rng.Intn(2) == 0 {
			p2 = p
		}
		var sink bytes.Buffer
		inner := indent.NewWriter(&sink, p)
		var outer io.Writer
		alphabet := []string{"a", "b", "\n", "\n", " ", "é", ":", p2[:1]}
		calls := []map[string]any{}
		n := 1 + rng.Intn(12)
		at := rng.Intn(n)
		for i := 0; i < n; i++ {
			if i == at {
				outer = indent.NewWriter(inner, p2) // possibly while the inner writer has a line open
			}
			var chunk []byte
			for j, k := 0, rng.Intn(7); j < k; j++ {
				chunk = append(chunk, alphabet[rng.Intn(len(alphabet))]...)
			}
			lvl := 1
			if outer != nil && rng.Intn(3) > 0 {
				lvl = 2
				outer.Write(chunk)
			} else {
				inner.Write(chunk)
			}
			calls = append(calls, map[string]any{"lvl": lvl, "chunk": ints(chunk)})
		}
		emit(map[string]any{"ev": "nested", "p1": ints([]byte(p)), "p2": ints([]byte(p2)), "calls": calls, "sink": ints(sink.Bytes())})
		if q.Tid == 1 {
			v.Sample = map[string]any{"direction": "B", "nested": true, "calls": len(calls)}
		}
		return v
	}
	u := &lw{n: -1}
	if rng.Intn(3) != 0 {
		u.n = rng.Intn(120)
	}
	w := indent.NewWriter(u, p)
	alphabet := []string{"a", "b", "\n", "\n", "\r\n", " ", "é", "世", "\t", p, p[:1]} // the prefix's own characters occur in the text too
	var pending []byte
	var all []byte
	calls := 1 + rng.Intn(30)
	long, longAt := rng.Intn(25) == 0, 0
	if long { // few calls: the recorded sink is repeated in every event
		calls = 1 + rng.Intn(3)
		longAt = rng.Intn(calls)
		if u.n >= 0 {
			u.n = rng.Intn(4000)
		}
	}
	for i := 0; i < calls; i++ {
		chunk := pending
		pending = nil
		n := rng.Intn(9)
		if long && i == longAt {
			n = 1000 + rng.Intn(1400) // one very long Write (implementations may work in blocks)
		}
		for j := 0; j < n; j++ {
			chunk = append(chunk, alphabet[rng.Intn(len(alphabet))]...)
		}
		if len(chunk) > 1 && rng.Intn(4) == 0 { // split anywhere, also inside a rune
			k := 1 + rng.Intn(len(chunk)-1)
			pending = append([]byte{}, chunk[k:]...)
			chunk = chunk[:k]
		}
		u.last = 0
		n, err := w.Write(chunk)
		all = append(all, chunk...)
		emit(map[string]any{"ev": "write", "chunk": ints(chunk), "accepted": u.last, "n": n, "err": err != nil, "sink": ints(u.got)})
		if err != nil {
			break
		}
	}
	emit(map[string]any{"ev": "oneshot", "prefix": ints([]byte(p)), "text": ints(all), "out": ints([]byte(indent.String(p, string(all))))})
	emit(map[string]any{"ev": "oneshot", "prefix": ints([]byte(p)), "text": ints(all), "out": ints(indent.Bytes([]byte(p), all))})
	if q.Tid == 1 {
		v.Sample = map[string]any{"direction": "B", "prefix": p, "events": len(v.Events)}
	}
	return v
}

func init() {
	core.Checks["C20"] = func(r *core.Run) {
		cfg, n := "MCIndent_quick.cfg", 300
		if r.Tier == "thorough" {
			cfg, n = "MCIndent_thorough.cfg", 5000
		}
		r.Rule = "A: every behaviour of Indent.tla within the bounds (texts over {a,LF}, prefixes, every division into Write calls incl. empty ones, every stop point of the underlying writer) replayed on indent.NewWriter with (n, err, delivered bytes) compared after every Write; B: seeded random executions (CR LF, multi-byte runes split across calls, up to 30 calls, random stop point) validated by IndentTrace.tla. Non-trivial = more than one Write or a limited underlying writer."
		r.Exhaustive = true
		r.Assumptions = []string{"the underlying writer obeys io.Writer (n < len only with an error)", "calls after a failed Write are outside the claim"}
		r.DirectionA("indent", core.TLCOpts{Module: "MCIndent", Cfg: cfg, Workers: 16}, nil)
		r.DirectionB("indent", n, core.TLCOpts{Module: "IndentTrace", Cfg: "IndentTrace.cfg"})
	}
}
