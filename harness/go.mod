module verifharness

go 1.22.0

require (
	github.com/openconfig/goyang v0.0.0
	pgregory.net/rapid v1.3.0
)

replace github.com/openconfig/goyang => /repo
