module verifharness

go 1.23

toolchain go1.23.5

require (
	github.com/openconfig/goyang v0.0.0
	pgregory.net/rapid v1.3.0
)

require github.com/google/go-cmp v0.7.0 // indirect

replace github.com/openconfig/goyang => /repo
